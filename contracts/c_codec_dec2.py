"""More decoder contracts: flat / one-level responses, message decoding (CRC first, fields, wrapper offsets)."""
from pyvc.contracts import contract
from .c_codec_dec import ALLOWED_DECODE_ERRORS

K = "afkak.kafkacodec.KafkaCodec."


@contract(K + "get_response_correlation_id")
class _:
    sig = "(data: bytes) -> int"
    props = ["C05", "C06"]
    ensures = {"func[C05,C06]": "result == u_i32(data, 0) and len(data) >= 4"}
    raises = {"BufferUnderflowError": "iff:len(data) < 4"}


@contract(K + "decode_consumermetadata_response")
class _:
    sig = "(data: bytes) -> ConsumerMetadataResponse"
    props = ["C05", "C12"]
    ensures = {"func[C05]": "result == ConsumerMetadataResponse(fcr_error(data, 0), fcr_node_id(data, 0), fcr_host(data, 0), fcr_port(data, 0))",
               "wellformed[C05]": "fcr_ok(data, 0)"}
    raises = dict(ALLOWED_DECODE_ERRORS)


@contract(K + "decode_heartbeat_response")
class _:
    sig = "(data: bytes) -> _HeartbeatResponse"
    props = ["C05", "C12"]
    ensures = {"func[C05]": "result == _HeartbeatResponse(errr_error(data, 0)) and errr_ok(data, 0)"}
    raises = {"BufferUnderflowError": "iff:not errr_ok(data, 0)"}


@contract(K + "decode_leave_group_response")
class _:
    sig = "(data: bytes) -> _LeaveGroupResponse"
    props = ["C05", "C12"]
    ensures = {"func[C05]": "result == _LeaveGroupResponse(errr_error(data, 0)) and errr_ok(data, 0)"}
    raises = {"BufferUnderflowError": "iff:not errr_ok(data, 0)"}


@contract(K + "decode_sync_group_response")
class _:
    sig = "(data: bytes) -> _SyncGroupResponse"
    props = ["C05", "C12"]
    ensures = {"func[C05]": "result == _SyncGroupResponse(sgr_error(data, 0), sgr_assignment(data, 0)) and sgr_ok(data, 0)"}
    raises = {"BufferUnderflowError": "not sgr_ok(data, 0)", "ProtocolError": "not sgr_ok(data, 0)"}


@contract(K + "decode_join_group_response")
class _:
    sig = "(data: bytes) -> _JoinGroupResponse"
    props = ["C05", "C12"]
    ensures = {"func[C05]": "result == _JoinGroupResponse(jgr_error(data, 0), jgr_generation_id(data, 0), jgr_group_protocol(data, 0), "
                            "jgr_leader_id(data, 0), jgr_member_id(data, 0), "
                            "jgr_member_items(data, jgr_pos_members(data, 0), jgr_members_cnt(data, jgr_pos_members(data, 0))))"}
    raises = dict(ALLOWED_DECODE_ERRORS)
    locals = {"members": "List[_JoinGroupResponseMember]"}
    loops = {"for#1": dict(index="i", decreases="len(data) - cur", inv=[
        "cur == jgr_members_pos(data, jgr_pos_members(data, 0), i)",
        "members == jgr_member_items(data, jgr_pos_members(data, 0), i)",
        "num_members == jgr_members_cnt(data, jgr_pos_members(data, 0))",
        "0 <= cur and cur <= len(data)"])}


@contract(K + "decode_join_group_protocol_metadata")
class _:
    sig = "(data: bytes) -> _JoinGroupProtocolMetadata"
    props = ["C05", "C12", "C15"]
    ensures = {"func[C05,C15]": "result == _JoinGroupProtocolMetadata(cps_version(data, 0), "
                                "cps_topic_items(data, 2, cps_topics_cnt(data, 2)), cps_user_data(data, 0))"}
    raises = dict(ALLOWED_DECODE_ERRORS)
    locals = {"subscriptions": "List[str]"}
    loops = {"for#1": dict(index="i", decreases="len(data) - cur", inv=[
        "cur == cps_topics_pos(data, 2, i)",
        "subscriptions == cps_topic_items(data, 2, i)",
        "num_subscriptions == cps_topics_cnt(data, 2)",
        "0 <= cur and cur <= len(data)"])}


@contract(K + "decode_api_versions_response")
class _:
    sig = "(data: bytes) -> ApiVersionResponse"
    props = ["C05", "C12"]
    ensures = {"func[C05]": "implies(avr_ok(data, 0) and len(data) == avr_end(data, 0), "
                            "result == ApiVersionResponse(avr_error_code(data, 0), avr_api_items(data, 6, avr_apis_cnt(data, 6))))",
               "errcode[C05]": "result.error_code == u_i16(data, 4)"}
    raises = {"BufferUnderflowError": "len(data) < 10", "struct.error": "(len(data) - 10) % 6 != 0"}
    locals = {"api_versions": "List[ApiVersion]"}
    # every ApiVersions entry is 6 bytes: positions are arithmetic (induction on k, scheme supplied, proved by z3)
    lemmas = [dict(name="entry-positions", var="k", base="0", stmt="avr_apis_pos(data, 6, k) == 10 + 6 * k",
                   use=["avr_apis_cnt(data, 6)"])]
    loops = {"for#1": dict(index="i", inv=[
        "api_versions == avr_api_items(data, 6, i)",
        "avr_apis_pos(data, 6, i) == 10 + 6 * i",
        "cur == 10 and len(data) >= 10"])}
    notes = "iter_unpack walks len(data[10:])/6 entries; equality with the spec is stated for well-formed input whose array count matches the payload length"


# ------------------------------------------------------------------------------------------------ messages

@contract("afkak.codec.gzip_decode")
class _:
    sig = "(payload: Optional[bytes]) -> bytes"
    trusted = True
    ensures = {"func": "result == gunzip(payload)"}
    raises = {"Exception": "not gzip_ok(payload)"}


@contract("afkak.codec.snappy_decode")
class _:
    sig = "(payload: Optional[bytes]) -> bytes"
    trusted = True
    ensures = {"func": "result == unsnappy(payload)"}
    raises = {"Exception": "True"}


MSG_ENV = {"att": "int", "magic": "int"}
# outcome classes are read as disjoint cases in this order (most specific first)
MSG_ERRORS = {"BufferUnderflowError": "True", "ChecksumError": "True", "KafkaError": "True", "Exception": "True"}


@contract(K + "_decode_message_set_iter")
class _:
    sig = "(data: bytes) -> List[OffsetAndMessage]"
    kind = "generator"
    item = "OffsetAndMessage"
    props = ["C05", "C12"]
    search = {"data": "msgset"}
    ensures = {}
    raises = {"ConsumerFetchSizeTooSmall[C12]": "True", "ChecksumError": "True", "KafkaError": "True", "Exception": "True"}
    partial = {"too-small-means-nothing-delivered[C12]": ("ConsumerFetchSizeTooSmall", "len(yielded) == 0")}
    # C12: a complete entry whose checksum fails is never taken for a cut-short tail - neither reported as a too-small
    # fetch (raise#1) nor used to end the set quietly (return#1); `entry` is the position the current iteration began at
    checkpoints = {"raise#1": {"corrupt-entry-is-not-a-small-fetch[C12]": "not entry_complete_but_corrupt(data, entry)"},
                   "return#1": {"corrupt-entry-does-not-end-the-set-quietly[C12]": "not entry_complete_but_corrupt(data, entry)"}}
    loops = {"while#1": dict(index="n", decreases="len(data) - cur", ghosts={"entry": "cur"},
                             inv=["0 <= cur and cur <= len(data)", "implies(not read_message, len(yielded) == 0)"]),
             "while#1/for#1": dict(index="k", inv=["0 <= cur and cur <= len(data)", "pre(cur) == cur",
                                                    "implies(not read_message, len(yielded) == 0)",
                                                    "implies(k > 0, read_message)"])}
    notes = "functional equality of the whole set with a recursive parser spec is not claimed here (bounded stand-in); " \
            "claimed: progress (12 bytes per completed entry), and FetchSizeTooSmall only when nothing was delivered"


@contract(K + "_decode_message")
class _:
    sig = "(data: bytes, offset: int) -> Any"
    props = ["C12", "C05"]
    inline_at_calls = True
    ensures = {"crc-before-interpretation[C12]": "msg_crc_ok(data)",
               "magic[C05]": "u_i8(data, 4) == 0 or u_i8(data, 4) == 1"}
    raises = {"BufferUnderflowError": "iff:len(data) < 6",
              "ChecksumError[C12]": "len(data) >= 6 and (not msg_crc_ok(data) or not (u_i8(data, 4) == 0 or u_i8(data, 4) == 1))"}


@contract(K + "_decode_message.<v0>")
class _:
    sig = "(data: bytes, offset: int, cur: int) -> List[Tuple[int, Message]]"
    kind = "generator"
    item = "Tuple[int, Message]"
    closure_env = MSG_ENV
    props = ["C05", "C12"]
    requires = ["cur == 6", "0 <= att and att <= 255", "magic == 0", "len(data) >= 6"]
    ensures = {"plain[C05]": "implies(att % 4 == 0, result == [(offset, Message(0, att, msg0_key(data), msg0_value(data), None, 0))])",
               "gzip[C05]": "implies(att % 4 == 1, result == pairs_prefix(drain(mkgen('afkak.kafkacodec.KafkaCodec._decode_message_set_iter', gunzip(msg0_value(data)))), "
                            "len(drain(mkgen('afkak.kafkacodec.KafkaCodec._decode_message_set_iter', gunzip(msg0_value(data)))))))"}
    raises = dict(MSG_ERRORS)
    loops = {"for#1": dict(index="k", inv=["yielded == pairs_prefix(iter_seq, k)"]),
             "for#2": dict(index="k", inv=["yielded == pairs_prefix(iter_seq, k)"])}


@contract(K + "_decode_message.<v1>")
class _:
    sig = "(data: bytes, offset: int, cur: int) -> List[Tuple[int, Message]]"
    kind = "generator"
    item = "Tuple[int, Message]"
    closure_env = dict(MSG_ENV, v1_inner="closure")
    props = ["C05", "C12"]
    requires = ["cur == 6", "0 <= att and att <= 255", "magic == 1", "len(data) >= 6"]
    ensures = {"plain[C05]": "implies(att % 4 == 0, result == [(offset, Message(1, att, msg1_key(data), msg1_value(data), msg1_ts(data), 0))])"}
    raises = dict(MSG_ERRORS)
    ensures["gzip[C05]"] = ("implies(att % 4 == 1, result == pairs_take(drain(mkgen('afkak.kafkacodec.KafkaCodec._decode_message.<v1_inner>', gunzip(msg1_value(data)), offset)), "
                            "len(drain(mkgen('afkak.kafkacodec.KafkaCodec._decode_message.<v1_inner>', gunzip(msg1_value(data)), offset)))))")
    loops = {"for#1": dict(index="k", inv=["yielded == pairs_take(iter_seq, k)"]),
             "for#2": dict(index="k", inv=["yielded == pairs_take(iter_seq, k)"])}


@contract(K + "_decode_message.<v1_inner>")
class _:
    sig = "(message_set: bytes, wrapper_offset: int) -> List[Tuple[int, Message]]"
    kind = "generator"
    item = "Tuple[int, Message]"
    props = ["C05"]
    ensures = {"absolute-offsets[C05]":
               "result == abs_pairs_prefix(drain(mkgen('afkak.kafkacodec.KafkaCodec._decode_message_set_iter', message_set)), "
               "v1_abs_base(drain(mkgen('afkak.kafkacodec.KafkaCodec._decode_message_set_iter', message_set)), wrapper_offset), "
               "len(drain(mkgen('afkak.kafkacodec.KafkaCodec._decode_message_set_iter', message_set))))"}
    raises = dict(MSG_ERRORS)
    loops = {"for#1": dict(index="k", inv=["yielded == abs_pairs_prefix(inner, base, k)"])}
    # a closure cannot be called natively: reach it through the enclosing function with a format-1 gzip wrapper
    native_call = "[(o, m) for o, m in KafkaCodec._decode_message(nat_wrap_gzip(1, message_set), wrapper_offset)]"
    native_gunzip_identity = True
    search = {"message_set": "msgset"}


# ---- bounded stand-ins (NOT proofs): the contract evaluated natively against the grammar-driven reference parser ------
DEC_ERR_MALFORMED = {k: "not {wf}(data)" for k in
                     ("BufferUnderflowError", "ProtocolError", "struct.error", "UnicodeDecodeError", "CorruptMessage",
                      "AttributeError", "TypeError")}


def _malformed(wf):
    return {k: v.format(wf=wf) for k, v in DEC_ERR_MALFORMED.items()}


contract(K + "decode_metadata_response")(type('_', (), dict(
    sig="(data: bytes) -> Any", props=["C05", "C08", "C12"], bounded=dict(n=1500), search={"data": "resp:mdr"},
    ensures={"func[C05,C08]": "implies(mdr_wellformed(data), result == mdr_expected(data))"},
    raises=_malformed("mdr_wellformed"),
    notes="dynamic struct formats ('>%di' % n) and dict-of-dict results are outside the symbolic subset; compared with a "
          "grammar-driven reference parser on generated well-formed, truncated, perturbed and padded responses")))

contract(K + "decode_sync_group_member_assignment")(type('_', (), dict(
    sig="(data: bytes) -> Any", props=["C05", "C15", "C12"], bounded=dict(n=1500), search={"data": "resp:sgma"},
    ensures={"func[C05,C15]": "implies(sgma_wellformed(data), result == sgma_expected(data))"},
    raises=_malformed("sgma_wellformed"),
    notes="dynamic struct format ('>%si' % n): bounded comparison with the grammar-driven reference parser")))
