"""Verification units: one function (or closure) of /repo under contract -> named obligations -> verdicts."""
import ast as _ast
import time
import traceback
import z3

from . import ty as T
from .ty import V, INT, BOOL, NONE, ANY, VNONE
from .engine import (Engine, State, Frame, PyObj, PathEnd, PyRaise, Unsupported, _Return, _Break, _Continue, Obl)
from .contracts import CONTRACTS
from . import solve


class UnitResult:
    def __init__(self, qualname):
        self.qualname = qualname
        self.obls = []          # (Obl, result dict)
        self.undecided = None   # reason string when the unit is outside the subset
        self.paths = 0
        self.time_s = 0.0
        self.error = None
        self.src_hash = None
        self.instance = None
        self.dead_ends = []     # (path, source line) where every alternative was unsatisfiable: the path was cut by an assumption


def short(qn):
    return qn.split('afkak.', 1)[-1]


def run_unit(eng, qualname, timeout_ms=10000, instance=None, discharge=True, cross_check=False):
    """Symbolically execute the real function `qualname` against its contract and discharge every obligation."""
    c = CONTRACTS[qualname]
    res = UnitResult(qualname)
    res.instance = instance
    t0 = time.time()
    ci = None
    if c.extra.get('class_constants'):
        # a contract over the class-level constants of a class (no code to execute): each clause is evaluated with the
        # constants bound to the values the class body in /repo gives them
        modname, clsname = qualname.rsplit('.', 1)
        mod = eng.repo.modules.get(modname)
        ci = mod.classes.get(clsname) if mod is not None else None
        if ci is None:
            res.undecided = 'class %s not found in /repo (anchor lost)' % qualname
            return res
        import hashlib as _hl
        import ast as _ast2
        res.src_hash = _hl.sha256(_ast2.dump(ci.node).encode()).hexdigest()[:16]
        fi = None
        eng.unit_func = None
        eng.unit_module = mod
    else:
        try:
            fi = eng.repo.func(qualname)
        except KeyError:
            res.undecided = 'function %s not found in /repo (anchor lost)' % qualname
            return res
        res.src_hash = fi.ast_hash()
        eng.unit_func = fi
        eng.unit_module = fi.module
    eng.contract = c
    eng.unit_name = qualname
    eng.unit_short = short(qualname) + ('[%s]' % instance_label(instance) if instance else '')
    eng.unit_kind = 'generator' if fi is not None and fi.is_generator and not fi.is_inline_callbacks else 'function'
    work = [[]]
    obls = []
    npaths = 0
    eng.stats['dead_ends'] = []
    eng.stats['checkpoints_hit'] = set()
    try:
        while work:
            prefix = work.pop()
            npaths += 1
            if npaths > eng.max_paths:
                raise Unsupported('more than %d paths' % eng.max_paths)
            st = State(prefix)
            eng.st = st
            eng.path_id = npaths
            eng.callcount = {}
            try:
                if ci is not None:
                    class_constants_path(eng, ci, c)
                else:
                    exec_path(eng, fi, c, instance)
            except PathEnd:
                pass
            obls.extend(st.obls)
            work.extend(st.alts)
    except Unsupported as e:
        res.undecided = str(e)
    except Exception as e:   # engine failure: checker error, never a verdict
        res.error = '%s: %s\n%s' % (type(e).__name__, e, traceback.format_exc())
    res.paths = npaths
    res.dead_ends = list(eng.stats.get('dead_ends', []))
    if res.undecided is None and res.error is None:
        # a clause anchored at a program point that no explored path reaches says nothing: the anchor was lost (the call was
        # removed or renamed, or the contract has a typo) - the unit is undecided rather than silently weaker
        missing = [k for k in (c.extra.get('checkpoints') or {}) if k not in eng.stats.get('checkpoints_hit', set())]
        if missing:
            res.undecided = 'checkpoint(s) %s of the contract are reached on no path (anchor lost)' % ', '.join(sorted(missing))
    if discharge and res.error is None:
        inc = solve.Incremental(eng, timeout_ms) if not cross_check else None
        for o in obls:
            try:
                r = inc.discharge(o) if inc is not None else solve.discharge(eng, o, timeout_ms=timeout_ms, cross_check=cross_check)
                if o.parts:
                    # batched clauses: one query when the batch is discharged, else each clause on its own
                    subs = []
                    for nm, cond in o.parts:
                        so = Obl(nm, o.kind, o.pc, o.axioms, cond, o.props, o.unit, o.path, o.note)
                        so.inputs = o.inputs
                        if r['verdict'] == 'proved':
                            sr = dict(r)
                            sr['time_s'] = r['time_s'] / len(o.parts)
                            sr['batched'] = len(o.parts)
                        else:
                            sr = inc.discharge(so) if inc is not None else solve.discharge(eng, so, timeout_ms=timeout_ms, cross_check=cross_check)
                        subs.append((so, sr))
                    res.obls.extend(subs)
                    continue
            except Exception as e:
                res.error = 'discharge %s: %s: %s\n%s' % (o.name, type(e).__name__, e, traceback.format_exc())
                break
            res.obls.append((o, r))
    else:
        res.obls = [(o, None) for o in obls]
    res.time_s = time.time() - t0
    return res


def class_constants_path(eng, ci, c):
    fr = Frame(None)
    for nm in ci.assigns:
        try:
            v = eng.eval_class_const(ci, nm)
        except Unsupported:
            continue
        if isinstance(v, V):
            fr.vars[nm] = v
    eng.inputs = {}
    eng.cover('cover.requires')
    for name, e in c.ensures.items():
        if not any(n.id in fr.vars for n in _ast.walk(_ast.parse(e, mode='eval')) if isinstance(n, _ast.Name)):
            raise Unsupported('clause %s mentions no class-level constant of %s' % (name, ci.name))
        eng.prove('const.' + name.split('[')[0], eng.pure_bool(e, fr), kind='post', props=c.clause_props(name), assume_after=False)


def instance_label(inst):
    if '@label' in inst:
        return inst['@label']
    return ','.join('%s=%r' % kv for kv in sorted(inst.items()))


def exec_path(eng, fi, c, instance):
    st = eng.st
    # enclosing frames for closures: free variables become extra symbolic inputs
    parent = None
    inputs = {}
    if c.closure_env:
        parent = Frame(fi.parent)
        for name, tys in c.closure_env.items():
            if tys == 'closure':
                sib = fi.parent.nested.get(name) if fi.parent is not None else None
                if sib is None:
                    raise Unsupported('closure %s not found next to %s' % (name, fi.qualname))
                parent.vars[name] = PyObj('closure', sib, parent)
                continue
            ty = T.parse_ty(tys)
            v = V(ty, z3.Const(name, T.sort_of(ty)))
            parent.vars[name] = v
            inputs[name] = v
        # every function nested in the same enclosing function is in scope by the time a closure runs as a callback (also the
        # closure's own name): names the sidecar did not declare resolve to the real sibling, not to "cannot be resolved"
        if fi.parent is not None:
            for name, sib in fi.parent.nested.items():
                if name not in parent.vars:
                    parent.vars[name] = PyObj('closure', sib, parent)
    fr = Frame(fi, parent=parent)
    a = fi.node.args
    pnames = [x.arg for x in a.args]
    if fi.is_classmethod:
        fr.vars[pnames[0]] = PyObj('class', fi.module.classes[fi.cls])
        pnames = pnames[1:]
    cparams = {p[0]: p for p in c.params}
    for pn in pnames:
        if pn not in cparams:
            raise Unsupported('parameter %s has no type in the contract signature' % pn)
        _, ty, _ = cparams[pn]
        if instance and pn in instance.get('@types', {}):
            ty = T.parse_ty(instance['@types'][pn])
        if instance and pn in instance:
            v = eng.lit(instance[pn])
        else:
            v = V(ty, z3.Const(pn, T.sort_of(ty)))
        fr.vars[pn] = v
        fr.ghost['old_' + pn] = v
        inputs[pn] = v
    if parent is not None:
        for k, v in parent.vars.items():
            fr.ghost['old_' + k] = v
    eng.inputs = inputs
    fr.ghost_inputs = dict(inputs)
    eng.B.unit_entry(eng, fi, c, fr)
    if eng.unit_kind == 'generator':
        lty = ('list', c.item_ty)
        st.yielded = V(lty, z3.Empty(T.sort_of(lty)))
    for r in c.requires:
        eng.assume(eng.pure_bool(r, fr))
    eng.cover('cover.requires')
    if eng.path_id == 1:
        prove_lemmas(eng, c, fr)
    outcome = None
    body = fi.node.body
    cuts = c.extra.get('cut_points')
    if cuts:
        body = cut_segment(eng, fi, c, fr, cuts)
        if body is None:
            return
    try:
        eng.exec_block(body, fr)
        if cuts and not eng.st.ghost.get('last_segment'):
            end_segment(eng, c, fr, cuts)
            return
        outcome = ('return', VNONE)
    except _Return as r:
        outcome = ('return', r.v)
    except PyRaise as e:
        outcome = ('raise', e)
    except (_Break, _Continue):
        raise Unsupported('break/continue outside loop')
    finish(eng, fi, c, fr, outcome)


def cut_indices(eng, fi, cuts):
    """top-level statement indices AFTER which the body is cut (default: every top-level `if` that makes an impure call)"""
    from . import heapglue
    import ast as _ast
    if cuts.get('after') is not None:
        return list(cuts['after'])
    out = []
    body = fi.node.body
    for i, s_ in enumerate(body[:-1]):
        if all(isinstance(x, (_ast.Return, _ast.Pass)) for x in body[i + 1:]):
            break           # the final notification before `return` is not a cut
        if isinstance(s_, _ast.If) and heapglue.writes_heap(s_.body) and any(
                isinstance(n, _ast.Call) and not heapglue._pure_call_static(n) for b in s_.body for n in _ast.walk(b)):
            out.append(i)
    return out


def cut_invs(fi, cuts, upto_index):
    """invariants in force at the cut after statement `upto_index`: the common ones plus those declared
    `inv_until = {name: (expr, "<source text of the top-level if test>")}` whose statement has not been passed yet"""
    import ast as _ast
    out = list(cuts.get('inv', []))
    for name, (expr, test_src) in cuts.get('inv_until', {}).items():
        pos = None
        for i, s_ in enumerate(fi.node.body):
            if isinstance(s_, _ast.If) and _ast.unparse(s_.test) == test_src:
                pos = i
                break
        if pos is None or upto_index < pos:
            out.append(expr)
    for name, (expr, test_src) in cuts.get('inv_from', {}).items():
        for i, s_ in enumerate(fi.node.body):
            if isinstance(s_, _ast.If) and _ast.unparse(s_.test) == test_src:
                if upto_index >= i:
                    out.append(expr)
                break
    return out


def cut_segment(eng, fi, c, fr, cuts):
    """CUT POINTS: a long sequential body (stop(): nine guarded cancellations, each an excursion into foreign code) is
    verified segment by segment.  Between segments the cut invariant (plus the object invariant) is proved and then is
    all that is known: the mutable heap is havocked, locals other than the parameters are forgotten.  Sound (every
    segment starts from a weaker state than any real execution reaches) and linear instead of exponential in the
    number of guarded statements."""
    from . import heap as H
    idx = cut_indices(eng, fi, cuts)
    bounds = [-1] + idx + [len(fi.node.body) - 1]
    nseg = len(bounds) - 1
    seg = eng.choose([z3.BoolVal(True)] * nseg) if nseg > 1 else 0
    eng.st.ghost['segment'] = seg
    eng.st.ghost['last_segment'] = (seg == nseg - 1)
    if seg > 0:
        H.havoc(eng, 'cut point')
        for o in eng.st.ghost.get('unit_objs', []):
            H.assume_invariant(eng, o)
        for e in cut_invs(fi, cuts, bounds[seg]):
            eng.assume(eng.pure_bool(e, fr))
    eng.st.ghost['segment_end'] = bounds[seg + 1]
    return fi.node.body[bounds[seg] + 1: bounds[seg + 1] + 1]


def end_segment(eng, c, fr, cuts):
    from . import heap as H
    seg = eng.st.ghost.get('segment', 0)
    for o in eng.st.ghost.get('unit_objs', []):
        H.assert_invariant(eng, o, 'cut#%d' % (seg + 1))
    for k, e in enumerate(cut_invs(eng.unit_func, cuts, eng.st.ghost.get('segment_end', 0))):
        eng.prove('cut#%d.inv.%d' % (seg + 1, k + 1), eng.pure_bool(e, fr), kind='inv.keep', assume_after=False)


def finish(eng, fi, c, fr, outcome):
    st = eng.st
    if eng.unit_kind == 'generator':
        fr.ghost['yielded'] = st.yielded
    if outcome[0] == 'return':
        v = outcome[1]
        if eng.unit_kind == 'generator':
            res = st.yielded
        else:
            try:
                ret_ty = c.extra['dep_ret'](eng, fr.ghost_inputs) if 'dep_ret' in c.extra else c.ret_ty
                if fi is not None and fi.is_inline_callbacks and ret_ty == ('ref', 'Deferred'):
                    # callers of an @inlineCallbacks function get a Deferred (the declared type); what the body returns
                    # is the value that Deferred fires with
                    ret_ty = ANY
                res = (T.coerce(v, ret_ty) if ret_ty != ANY else v) if isinstance(v, V) else v
            except T.TypeMismatch as e:
                eng.prove('type.result', z3.BoolVal(False), kind='type', note=str(e), props=c.props)
                return
        fr.ghost['result'] = res
        eng.B.unit_exit(eng, fi, c, fr, outcome)
        fr_post = entry_frame(fr)     # parameter names in postconditions denote entry values
        use_lemmas(eng, c, fr_post)
        eng.forall_mode = 'prove'
        for name, e in c.ensures.items():
            eng.prove('post.' + name.split('[')[0], eng.pure_bool(e, fr_post), kind='post', props=c.clause_props(name),
                      assume_after=False)
        for exc_name, cond in c.raises.items():
            if isinstance(cond, str) and cond.startswith('iff:'):
                fr0 = entry_frame(fr)
                with entry_heap(eng):
                    cz = eng.pure_bool(cond[4:], fr0)
                eng.prove('post.noraise.' + exc_name.split('[')[0], z3.Not(cz),
                          kind='post', props=c.clause_props(exc_name), assume_after=False)
        eng.forall_mode = 'assume'
        eng.cover('cover.return')
    else:
        e = outcome[1]
        eng.B.unit_exit(eng, fi, c, fr, outcome)
        matched = None
        for exc_name, cond in c.raises.items():
            base = exc_name.split('[')[0]
            if eng.exc.issub(e.cls, base):
                matched = (exc_name, cond)
                break
        if matched is None:
            eng.prove('unexpected-exception.%s' % e.cls, z3.BoolVal(False), kind='unexpected-exception',
                      note=e.msg or '', props=c.props)
            return
        exc_name, cond = matched
        if isinstance(cond, str) and cond.startswith('iff:'):
            cond = cond[4:]
        fr0 = entry_frame(fr)
        with entry_heap(eng):
            cz = eng.pure_bool(cond, fr0)
        eng.prove('xpost.' + exc_name.split('[')[0], cz, kind='xpost',
                  props=c.clause_props(exc_name), assume_after=False)
        for name, ex in c.extra.get('partial', {}).items():
            only = None
            if isinstance(ex, tuple):
                only, ex = ex
            if only is not None and not eng.exc.issub(e.cls, only):
                continue
            eng.prove('xpost.partial.' + name.split('[')[0], eng.pure_bool(ex, fr), kind='xpost',
                      props=c.clause_props(name), assume_after=False)


class entry_heap:
    """evaluate in the heap as it was at unit entry (raises-conditions talk about the pre-state)"""

    def __init__(self, eng):
        self.eng = eng

    def __enter__(self):
        st = self.eng.st
        self.cur = st.heap
        snap = st.ghost.get('entry_heap')
        if snap is not None:
            st.heap = dict(snap)
        self.snap = snap

    def __exit__(self, *a):
        st = self.eng.st
        if self.snap is not None:
            for k_, v_ in st.heap.items():
                if k_ not in self.cur:
                    self.cur[k_] = v_
            st.heap = self.cur


def use_lemmas(eng, c, fr):
    """spec-level induction lemmas declared in the contract (each proved separately as lemma.base / lemma.step
    obligations of this unit, see prove_lemmas) are instantiated at the stated terms before the postconditions"""
    for lem in c.extra.get('lemmas', []):
        for use in lem.get('use', []):
            f = Frame(fr.func, fr)
            f.vars[lem['var']] = eng.pure_expr(use, fr)
            guard = eng.pure_bool('%s >= %s' % (lem['var'], lem.get('base', '0')), f)
            eng.assume(z3.Implies(guard, eng.pure_bool(lem['stmt'], f)))


def prove_lemmas(eng, c, fr):
    """induction scheme supplied explicitly: P(base) and (k >= base and P(k)) => P(k+1), over the unit's symbolic inputs"""
    for lem in c.extra.get('lemmas', []):
        if 'var' not in lem:
            # a spec-level fact over the unit's symbolic inputs (no induction): proved once, as stated
            eng.prove('lemma.%s' % lem['name'].split('[')[0], eng.pure_bool(lem['stmt'], fr), kind='lemma',
                      props=c.clause_props(lem['name']), assume_after=False)
            continue
        var, base = lem['var'], lem.get('base', '0')
        f = Frame(fr.func, fr)
        f.vars[var] = eng.pure_expr(base, fr)
        eng.prove('lemma.%s.base' % lem['name'], eng.pure_bool(lem['stmt'], f), kind='lemma', assume_after=False)
        k = eng.fresh(INT, var)
        f1 = Frame(fr.func, fr)
        f1.vars[var] = k
        f2 = Frame(fr.func, fr)
        f2.vars[var] = V(INT, k.t + 1)
        hyp = z3.And(eng.pure_bool('%s >= %s' % (var, base), f1), eng.pure_bool(lem['stmt'], f1))
        eng.prove('lemma.%s.step' % lem['name'], z3.Implies(hyp, eng.pure_bool(lem['stmt'], f2)), kind='lemma',
                  assume_after=False)


def entry_frame(fr):
    """frame in which parameters have their entry values (raises-conditions talk about the pre-state)"""
    f = Frame(fr.func, fr.parent)
    for k, v in fr.ghost.items():
        if k.startswith('old_'):
            f.vars[k[4:]] = v
            f.vars['p_' + k[4:]] = v      # p_<name>: the parameter even when the contract keyword `result` shadows it
    f.ghost = fr.ghost
    return f


def formats_in_repo(repo):
    """constant struct formats passed to relative_unpack anywhere in /repo (mechanical scan of the AST)"""
    import ast
    out = set()
    for m in repo.modules.values():
        for n in ast.walk(m.tree):
            if isinstance(n, ast.Call) and getattr(n.func, 'id', getattr(n.func, 'attr', None)) == 'relative_unpack':
                a = n.args[0] if n.args else None
                if isinstance(a, ast.Constant) and isinstance(a.value, str):
                    out.add(a.value)
    return sorted(out)


# ---------------------------------------------------------------------------------------------- model -> inputs

def model_inputs(eng, o, model):
    """Concretise the unit's symbolic inputs from a z3 model into JSON-able Python values."""
    out = {}
    strs = {}
    for name, v in (o.inputs or {}).items():
        out[name] = term_to_py(model, v.ty, model.eval(v.t, model_completion=True), strs)
    return out


def term_to_py(model, ty, t, strs):
    import z3
    k = ty[0]
    if k == 'int':
        return t.as_long() if z3.is_int_value(t) else 0
    if k == 'bool':
        return bool(z3.is_true(t))
    if k == 'real':
        try:
            return float(t.numerator_as_long()) / float(t.denominator_as_long())
        except Exception:
            return 0.0
    if k == 'bytes':
        if ty == T.BYTEARRAY:
            return {'__bytearray__': seq_to_bytes(model, t).hex()}
        return {'__bytes__': seq_to_bytes(model, t).hex()}
    if k == 'str':
        key = str(t)
        if key not in strs:
            strs[key] = 's%d' % len(strs)
        return strs[key]
    if k == 'none':
        return None
    if k == 'opt':
        i = T.info(ty)
        if z3.is_true(model.eval(i['is_none'](t), model_completion=True)):
            return None
        return term_to_py(model, ty[1], model.eval(i['val'](t), model_completion=True), strs)
    if k == 'tuple':
        i = T.info(ty)
        return {'__tuple__': [term_to_py(model, et, model.eval(a(t), model_completion=True), strs)
                              for a, et in zip(i['acc'], ty[1])]}
    if k == 'struct':
        i = T.info(ty)
        return {'__struct__': ty[1], 'fields': {f: term_to_py(model, ft, model.eval(i['acc'][f](t), model_completion=True), strs)
                                                 for f, ft, _ in T.STRUCTS[ty[1]]}}
    if k == 'list':
        n = model.eval(z3.Length(t), model_completion=True)
        n = n.as_long() if z3.is_int_value(n) else 0
        return [term_to_py(model, ty[1], model.eval(t[z3.IntVal(j)], model_completion=True), strs) for j in range(min(n, 64))]
    if k == 'dict':
        i = T.info(ty)
        keys = model.eval(i['keys'](t), model_completion=True)
        mp = model.eval(i['map'](t), model_completion=True)
        n = model.eval(z3.Length(keys), model_completion=True)
        n = n.as_long() if z3.is_int_value(n) else 0
        items = []
        for j in range(min(n, 32)):
            kt = model.eval(keys[z3.IntVal(j)], model_completion=True)
            vt = model.eval(z3.Select(mp, kt), model_completion=True)
            items.append([term_to_py(model, ty[1], kt, strs), term_to_py(model, ty[2], vt, strs)])
        return {'__dict__': items}
    return {'__unrepresentable__': T.mangle(ty)}


def seq_to_bytes(model, t):
    import z3
    n = model.eval(z3.Length(t), model_completion=True)
    n = n.as_long() if z3.is_int_value(n) else 0
    out = bytearray()
    for j in range(min(n, 4096)):
        b = model.eval(t[z3.IntVal(j)], model_completion=True)
        out.append(b.as_long() if z3.is_bv_value(b) else 0)
    return bytes(out)
