import struct, sys
sys.path.insert(0, '/verif')
from twisted.internet import defer, task
from afkak import KafkaClient, Producer
from afkak.common import BrokerMetadata, TopicMetadata, PartitionMetadata
from specs.scenarios import _parse_produce_request

log = []
class BC:
    def __init__(self, n): self.node_id=n; self.host='b'; self.port=1
    def makeRequest(self, cid, req, expectResponse=True):
        d = defer.Deferred(); ver, corr, acks, parts = _parse_produce_request(req)
        log.append((self.node_id, corr, parts, d)); print('  -> request', len(log)-1, 'to node', self.node_id, {k: [v for _, v, _ in ms] for k, ms in parts.items()}); return d
    def connected(self): return True
clock = task.Clock()
c = KafkaClient(hosts='h:1', reactor=clock, enable_protocol_version_discovery=False, timeout=30.0)
bcs = {1: BC(1), 2: BC(2)}
c._get_brokerclient = lambda n: bcs[n]
brokers = {i: BrokerMetadata(i, 'b', 1) for i in (1, 2)}
def load(*t):
    c._merge_topic_metadata(brokers, {'t': TopicMetadata('t', 0, {p: PartitionMetadata('t', p, 0, 2, (1,), (1,)) for p in (0, 1)})}, False)
    return defer.succeed(None)
c.load_metadata_for_topics = load; load()
p = Producer(c, batch_send=True, batch_every_n=3, batch_every_b=0, batch_every_t=5, max_req_attempts=4)
out = {}
p.send_messages('t', msgs=[b'm0']).addBoth(lambda r: out.setdefault(0, r))
clock.advance(0.1)
p.send_messages('t', msgs=[b'm1a', b'm1b']).addBoth(lambda r: out.setdefault(1, r))
print('stop()'); p.stop(); print('  results after stop:', out)
n = len(log)
node, corr, parts, d = log[0]
print('in-flight request Deferred called after stop:', d.called)
body = struct.pack('>ii', corr, 1) + struct.pack('>h', 1) + b't' + struct.pack('>i', len(parts))
for (t, pt) in parts: body += struct.pack('>ihq', pt, 7, 42)
try:
    d.callback(body)
except Exception as e:
    print('answer rejected', e)
clock.advance(60)
print('requests transmitted after stop():', len(log) - n)
sys.exit(1 if len(log) > n else 0)
