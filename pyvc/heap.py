"""Heap, object invariants, re-entrancy and the trusted Twisted contracts.

Objects with mutable fields are references (ints); each declared field is one SMT array Ref -> value ("Dafny style").
Pre-existing objects have symbolic ids in [1, 10^6); objects allocated during an activation get ids from 10^6 up, so
freshness is structural.  Every point where control can leave the object synchronously and come back (firing,
cancelling or extending a possibly-fired Deferred, calling a user callable) is an EXTERNAL CALL: the object invariant
is asserted before it, the mutable heap is havocked after it and the invariant (and the class's rely clauses) assumed.
Per-entry table invariants (forall k in table: P(entry)) never reach the solver as quantifiers: they are instantiated
at every entry read when assumed and proved for a skolem key when asserted.
"""
import ast
import z3

from . import ty as T
from .ty import V, INT, BOOL, REAL, BYTES, STR, NONE, ANY, VNONE, vint, vbool

I = z3.IntSort()
KLASSES = {}
FRESH_BASE = 1000000


class Klass:
    def __init__(self, name, qualname, d):
        self.name = name
        self.qualname = qualname          # afkak.module.Class
        self.fields = {}                  # name -> (ty, mutable)
        for f, t in d.get('fields', {}).items():
            mutable = True
            if isinstance(t, tuple):
                t, mutable = t
            self.fields[f] = (T.parse_ty(t), mutable)
        self.invariant = dict(d.get('invariant', {}))         # name -> expr over self
        self.tables = dict(d.get('tables', {}))               # field -> (var, {name: expr over self, var})
        self.rely = dict(d.get('rely', {}))                   # name -> two-state expr over self (old(...))
        self.ghost = {f: T.parse_ty(t) for f, t in d.get('ghost', {}).items()}
        for f, t in self.ghost.items():
            self.fields[f] = (t, True)
        self.external = d.get('external', False)              # modelled library class (Deferred...): no source
        self.props = list(d.get('props', []))
        self.class_consts = dict(d.get('class_consts', {}))
        self.methods = dict(d.get('methods', {}))
        self.ghost_on_construct = dict(d.get('ghost_on_construct', {}))
        self.subclass_methods = list(d.get('subclass_methods', []))   # subclasses (same module) whose objects share this heap class


def klass(qualname):
    def deco(cls):
        d = {k: v for k, v in vars(cls).items() if not k.startswith('__')}
        name = qualname.split('.')[-1]
        KLASSES[name] = Klass(name, qualname, d)
        return cls
    return deco


def field_array(eng, cls, field):
    key = (cls, field)
    st = eng.st
    if key not in st.heap:
        ty = KLASSES[cls].fields[field][0]
        st.heap[key] = z3.Const('H_%s_%s' % (cls, field), z3.ArraySort(I, T.sort_of(ty)))
    return st.heap[key]


def heap_read(eng, ref, field):
    from .engine import Unsupported, PyObj
    cls = ref.ty[1]
    k = KLASSES.get(cls)
    if k is None:
        raise Unsupported('class %s is not declared' % cls)
    if field in k.fields:
        ty = k.fields[field][0]
        v = V(ty, z3.Select(field_array(eng, cls, field), ref.t))
        on_field_read(eng, k, ref, field, v)
        return v
    if not k.external:
        modname, clsname = k.qualname.rsplit('.', 1)
        mod = eng.repo.modules.get(modname)
        ci = mod.classes.get(clsname) if mod is not None else None
        if ci is not None and field in ci.assigns and field not in ci.methods:
            saved = eng.unit_module
            eng.unit_module = mod
            try:
                return eng.eval_class_const(ci, field)        # class-level constant, read from /repo
            finally:
                eng.unit_module = saved
    # a method of the class
    m = find_method(eng, k, field)
    if m is not None:
        return PyObj('bound', m, ref)
    if k.external:
        return PyObj('extmethod', (ref, field))
    raise Unsupported('%s has no declared field or method %s' % (cls, field))


def find_method(eng, k, name):
    if k.external:
        return None
    modname, clsname = k.qualname.rsplit('.', 1)
    mod = eng.repo.modules.get(modname)
    if mod is None:
        return None
    seen = set()
    ci = mod.classes.get(clsname)
    while ci is not None and ci.name not in seen:
        seen.add(ci.name)
        if name in ci.methods:
            return ci.methods[name]
        nxt = None
        for b in ci.bases:
            if b in mod.classes:
                nxt = mod.classes[b]
                break
        ci = nxt
    # methods only a declared subclass defines (its objects live in this heap class)
    for sub in getattr(k, 'subclass_methods', []):
        sci = mod.classes.get(sub)
        if sci is not None and name in sci.methods:
            return sci.methods[name]
    return None


def heap_write(eng, ref, field, v, init=False):
    from .engine import Unsupported
    cls = ref.ty[1]
    k = KLASSES.get(cls)
    if k is None or field not in k.fields:
        raise Unsupported('write to undeclared field %s.%s' % (cls, field))
    if not init and not k.fields[field][1]:
        # the sidecar declares this field immutable (it is never forgotten at a havoc, and every unit reads it as a
        # constant of the object): code that assigns it contradicts the declaration - the units are undecided, not wrong
        raise Unsupported('assignment to %s.%s, which the class declaration in the sidecar lists as immutable' % (cls, field))
    ty = k.fields[field][0]
    try:
        cv = T.coerce(v, ty) if isinstance(v, V) else None
    except T.TypeMismatch as e:
        raise Unsupported('write to %s.%s: %s' % (cls, field, e))
    if cv is None:
        raise Unsupported('write of a non-value to %s.%s' % (cls, field))
    arr = field_array(eng, cls, field)
    eng.st.heap[(cls, field)] = z3.Store(arr, ref.t, cv.t)


def alloc(eng, cls, init=None):
    st = eng.st
    n = st.ghost.get('nalloc', 0)
    st.ghost['nalloc'] = n + 1
    ref = V(('ref', cls), z3.IntVal(FRESH_BASE + n))
    for f, val in (init or {}).items():
        heap_write(eng, ref, f, val, init=True)
    return ref


def assume_preexisting(eng, ref):
    eng.assume(z3.And(ref.t >= 1, ref.t < FRESH_BASE))


def on_field_read(eng, k, ref, field, v):
    """refs stored in the heap denote existing objects.  What a heap array held when it was created (at unit entry or at
    a havoc) predates every allocation made afterwards, so those contents are below the allocation counter of that
    moment: this is what makes `new object != anything reachable before` provable."""
    ty = v.ty
    inner = ty[1] if ty[0] == 'opt' else ty
    if inner[0] != 'ref':
        return
    arr = eng.st.heap[(k.name, field)]
    seen = eng.st.__dict__.setdefault('ofr_seen', set())
    ck = (arr.get_id(), ref.t.get_id())
    if ck in seen:
        return
    seen.add(ck)
    base = arr
    while z3.is_app(base) and base.decl().kind() == z3.Z3_OP_STORE:
        base = base.arg(0)
    n0 = eng.st.ghost.get('arr_nalloc', {}).get(base.get_id(), 0)
    bv = V(ty, z3.Select(base, ref.t))
    t = T.opt_val(bv).t if ty[0] == 'opt' else bv.t
    rng = z3.And(t >= 1, t < FRESH_BASE + n0)
    eng.axiom(z3.Implies(z3.Not(T.is_none(bv)), rng) if ty[0] == 'opt' else rng)


# ---------------------------------------------------------------------------------------------- invariants

def self_frame(eng, ref, extra=None):
    from .engine import Frame
    fr = Frame(None)
    fr.vars['self'] = ref
    if extra:
        fr.vars.update(extra)
    return fr


def table_entry_pred(eng, k, ref, field, key_v, entry_v, name=None):
    """conjunction (or one named clause) of the per-entry invariant of table `field` for (key, entry)"""
    var, clauses = k.tables[field]
    fr = self_frame(eng, ref, {var + '_key': key_v, var: entry_v})
    conds = []
    for nm, e in clauses.items():
        if name is None or nm == name:
            conds.append(eng.pure_bool(e, fr))
    return z3.And(conds) if conds else z3.BoolVal(True)


def assume_invariant(eng, ref, exempt=()):
    k = KLASSES[ref.ty[1]]
    fr = self_frame(eng, ref)
    for nm, e in k.invariant.items():
        if nm in exempt:
            continue
        eng.assume(eng.pure_bool(e, fr))
    # table invariants are instantiated lazily at entry reads (see on_table_read)
    eng.st.ghost.setdefault('inv_objects', {})[ref.t.get_id()] = ref
    eng.st.ghost.setdefault('inv_epoch', {})[ref.t.get_id()] = dict(eng.st.heap)


def on_table_read(eng, owner_ref, field, key_v, entry_v, present):
    """an entry read from a table whose owner's invariant is currently assumed: instantiate the per-entry invariant"""
    k = KLASSES[owner_ref.ty[1]]
    if field not in k.tables:
        return
    if owner_ref.t.get_id() not in eng.st.ghost.get('inv_objects', {}):
        return
    saved = eng.pure
    eng.pure = True
    try:
        p = table_entry_pred(eng, k, owner_ref, field, key_v, entry_v)
    finally:
        eng.pure = saved
    eng.assume(z3.Implies(present, p))


def assert_invariant(eng, ref, where, props=None, exempt=()):
    """prove the object invariant (scalar clauses + every table clause for a skolem key).  The clauses are submitted as ONE
    batched obligation (conjunction); only if the batch is not discharged each clause is checked on its own, so a failure
    is still reported under the clause's name while the common case costs a single query."""
    k = KLASSES[ref.ty[1]]
    fr = self_frame(eng, ref)
    parts = []
    for nm, e in k.invariant.items():
        if nm in exempt:
            continue
        parts.append(('objinv.%s:%s' % (where, nm), eng.pure_bool(e, fr)))
    for field, (var, clauses) in k.tables.items():
        d = heap_read_raw(eng, ref, field)
        kty, vty = d.ty[1], d.ty[2]
        sk = eng.fresh(kty, 'sk_' + var)
        present = z3.Select(T.dict_has(d), sk.t)
        entry = V(vty, z3.Select(T.dict_map(d), sk.t))
        # the invariant as last assumed (entry / after the last excursion) holds for this key too
        epoch = eng.st.ghost.get('inv_epoch', {}).get(ref.t.get_id())
        if epoch is not None:
            cur = eng.st.heap
            eng.st.heap = dict(epoch)
            saved_pure = eng.pure
            eng.pure = True
            try:
                d0 = heap_read_raw(eng, ref, field)
                e0 = V(vty, z3.Select(T.dict_map(d0), sk.t))
                p0 = table_entry_pred(eng, k, ref, field, sk, e0)
                eng.assume(z3.Implies(z3.Select(T.dict_has(d0), sk.t), p0))
                if e0.ty[0] == 'ref':
                    eng.assume(z3.Implies(z3.Select(T.dict_has(d0), sk.t), z3.And(e0.t >= 1, e0.t < FRESH_BASE)))
            finally:
                eng.pure = saved_pure
                for key_, arr_ in eng.st.heap.items():
                    if key_ not in cur:
                        cur[key_] = arr_
                eng.st.heap = cur
        for nm in clauses:
            p = table_entry_pred(eng, k, ref, field, sk, entry, nm)
            parts.append(('objinv.%s:%s.%s' % (where, field, nm), z3.Implies(present, p)))
    if not parts:
        return
    # the invariant belongs to the properties of its class AND to those of the unit that has to maintain it here
    own = list(eng.contract.props) if getattr(eng, 'contract', None) is not None else []
    o = eng.prove('objinv.%s:*' % where, z3.And([c_ for _, c_ in parts]), kind='objinv',
                  props=props or sorted(set(k.props) | set(own)), assume_after=False)
    o.parts = parts


def heap_read_raw(eng, ref, field):
    cls = ref.ty[1]
    ty = KLASSES[cls].fields[field][0]
    return V(ty, z3.Select(field_array(eng, cls, field), ref.t))


def havoc(eng, reason='external call', only=None):
    """forget every mutable field of every declared class (immutable fields keep their arrays); `only` restricts
    the havoc to a frame given as ['Class.field', ...]"""
    st = eng.st
    n = st.ghost.get('nhavoc', 0) + 1
    st.ghost['nhavoc'] = n
    old = dict(st.heap)
    for cname, k in KLASSES.items():
        for f, (ty, mutable) in k.fields.items():
            if mutable and (only is None or ('%s.%s' % (cname, f)) in only or (cname + '.*') in only):
                arr = z3.Const('H_%s_%s!h%d_%d' % (cname, f, eng.path_id, n), z3.ArraySort(I, T.sort_of(ty)))
                st.heap[(cname, f)] = arr
                st.ghost.setdefault('arr_nalloc', {})[arr.get_id()] = st.ghost.get('nalloc', 0)
    preserve_private(eng, old)
    # monotone ghost facts survive a havoc (a fired Deferred stays fired, a cancelled/called timer stays inactive)
    for (cname, f), mono in MONOTONE.items():
        if (cname, f) in old:
            r = z3.FreshConst(I, 'r')
            # instantiated for the references the activation knows about instead of a quantifier
            for ref in known_refs(eng, cname):
                a_old = z3.Select(old[(cname, f)], ref)
                a_new = z3.Select(field_array(eng, cname, f), ref)
                eng.assume(z3.Implies(a_old, a_new) if mono == 'up' else z3.Implies(z3.Not(a_old), z3.Not(a_new)))
    return old


def preserve_private(eng, old):
    """DETACHED Deferreds: a local the contract declares private (`private_locals`) holds a Deferred that has been taken out
    of every field before the excursion (proved here: it differs from every Deferred-typed field of the unit's objects).
    Code running during the excursion reaches Deferreds only through those fields, so the detached one keeps its state.
    (Assumption: application callbacks do not fire afkak's internal Deferreds.)"""
    c = eng.contract
    names = c.extra.get('private_locals', []) if c is not None else []
    fr = getattr(eng, 'cur_frame', None)
    if not names or fr is None:
        return
    cur = eng.st.heap
    for nm in names:
        v = fr.lookup(nm)
        if isinstance(v, V) and v.ty == ('opt', ('ref', 'Deferred')):
            v = T.opt_val(v)
        if not isinstance(v, V) or v.ty != ('ref', 'Deferred'):
            continue
        # privacy obligation, evaluated in the heap BEFORE the havoc
        eng.st.heap = old
        try:
            conds = []
            for o in eng.st.ghost.get('unit_objs', []):
                k = KLASSES[o.ty[1]]
                for f, (ty, mut) in k.fields.items():
                    if ty == ('opt', ('ref', 'Deferred')):
                        fv = heap_read_raw(eng, o, f)
                        conds.append(z3.Or(T.is_none(fv), T.opt_val(fv).t != v.t))
                    elif ty == ('ref', 'Deferred'):
                        conds.append(heap_read_raw(eng, o, f).t != v.t)
        finally:
            eng.st.heap = cur
        n = eng.callcount.get('priv', 0) + 1
        eng.callcount['priv'] = n
        eng.prove('private#%d:%s-is-detached' % (n, nm), z3.And(conds) if conds else z3.BoolVal(True), kind='pre')
        for fld in ('called', 'failed'):
            if ('Deferred', fld) in old:
                eng.assume(z3.Select(field_array(eng, 'Deferred', fld), v.t) == z3.Select(old[('Deferred', fld)], v.t))
        # ... and nobody can have stored it back into a field
        for o in eng.st.ghost.get('unit_objs', []):
            k = KLASSES[o.ty[1]]
            for f, (ty, mut) in k.fields.items():
                if not mut:
                    continue
                if ty == ('opt', ('ref', 'Deferred')):
                    fv = heap_read_raw(eng, o, f)
                    eng.assume(z3.Or(T.is_none(fv), T.opt_val(fv).t != v.t))
                elif ty == ('ref', 'Deferred'):
                    eng.assume(heap_read_raw(eng, o, f).t != v.t)


MONOTONE = {('Deferred', 'called'): 'up', ('DelayedCall', 'is_active'): 'down'}


def known_refs(eng, cname):
    return list(eng.st.ghost.get('refs_' + cname, {}).values())


def note_ref(eng, v):
    """remember reference terms of monotone classes so that monotonicity is instantiated for them at each havoc"""
    ty = v.ty[1] if v.ty[0] == 'opt' else v.ty
    if ty[0] == 'ref' and any(c == ty[1] for (c, f) in MONOTONE):
        t = T.opt_val(v).t if v.ty[0] == 'opt' else v.t
        eng.st.ghost.setdefault('refs_' + ty[1], {})[t.get_id()] = t


def external_call(eng, what, self_ref=None, props=None, exempt=()):
    """synchronous excursion into foreign code that may re-enter any public method of our objects"""
    n = eng.callcount.get('ext', 0) + 1
    eng.callcount['ext'] = n
    objs = list(eng.st.ghost.get('inv_objects', {}).values())
    for ref in objs:
        assert_invariant(eng, ref, 'at-call#%d(%s)' % (n, what), props, exempt=exempt)
    old = havoc(eng, what)
    for ref in objs:
        assume_invariant(eng, ref)
        assume_rely(eng, ref, old)


def assume_rely(eng, ref, old_heap):
    k = KLASSES[ref.ty[1]]
    fr = self_frame(eng, ref)
    eng.st.ghost['old_heap_stack'] = eng.st.ghost.get('old_heap_stack', []) + [old_heap]
    try:
        for nm, e in k.rely.items():
            eng.assume(eng.pure_bool(e, fr))
    finally:
        eng.st.ghost['old_heap_stack'] = eng.st.ghost['old_heap_stack'][:-1]


def old_expr(eng, arg, fr):
    """old(e): e evaluated in the heap at unit entry (or, inside a rely clause, before the external call)"""
    st = eng.st
    stack = st.ghost.get('old_heap_stack', [])
    snap = stack[-1] if stack else st.ghost.get('entry_heap')
    if snap is None:
        from .engine import Unsupported
        raise Unsupported('old(): no heap snapshot')
    cur = st.heap
    st.heap = dict(snap)
    try:
        return eng.eval(arg, fr)
    finally:
        # arrays created lazily while evaluating in the old heap are shared (they were never written)
        for key, arr in st.heap.items():
            if key not in cur:
                cur[key] = arr
        st.heap = cur


def assert_guarantees(eng, ref, props=None):
    """the class's rely clauses are what every entry point may assume about the others during an excursion; in turn every
    entry point has to guarantee them (two-state, against the heap at its entry)"""
    k = KLASSES[ref.ty[1]]
    fr = self_frame(eng, ref)
    for nm, e in k.rely.items():
        eng.prove('guarantee.%s' % nm, eng.pure_bool(e, fr), kind='guarantee', props=props or k.props, assume_after=False)
