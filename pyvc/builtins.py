"""Built-in semantics: the part of Python / stdlib the engine interprets itself (trusted encoding)."""
import ast
import z3

from . import ty as T
from .ty import V, INT, BOOL, REAL, BYTES, STR, NONE, ANY, VNONE, vint, vbool, vbytes, vstr, vreal

I = z3.IntSort()


def concat(a, b):
    if a is None:
        return b
    if b is None:
        return a
    if _is_empty(a):
        return b
    if _is_empty(b):
        return a
    return z3.Concat(a, b)


def _is_empty(t):
    return z3.is_app(t) and t.decl().kind() == z3.Z3_OP_SEQ_EMPTY


def seq_term(v):
    """z3 term of a list/bytes value (a literal [] has no element type yet)."""
    return v.t


def zmin(a, b):
    return z3.If(a <= b, a, b)


def zmax(a, b):
    return z3.If(a >= b, a, b)


def install(eng):
    from .engine import PyObj, UF
    eng.pure = False
    eng.cur_exc = None
    eng.callcount = {}
    eng.unit_module = None
    eng.contract = None
    eng.unit_name = None
    eng.unit_kind = 'function'
    eng.path_id = 0
    eng.inputs = None
    bn = {}
    for name, fn in BUILTIN_FUNCS.items():
        if fn is not None:
            bn[name] = PyObj('builtin', fn)
    for name in list(eng.exc.parent):
        if '.' not in name:
            bn.setdefault(name, PyObj('excclass', name))
    bn['struct'] = PyObj('module', 'struct')
    bn['sys'] = PyObj('module', 'sys')
    bn['zlib'] = PyObj('module', 'zlib')
    bn['time'] = PyObj('module', 'time')
    bn['bytes'] = PyObj('type', 'bytes')
    bn['str'] = PyObj('type', 'str')
    bn['bytearray'] = PyObj('type', 'bytearray')
    bn['int'] = PyObj('builtin', b_int)
    bn['float'] = PyObj('builtin', b_float)
    bn['bool'] = PyObj('type', 'bool')
    bn['object'] = PyObj('type', 'object')
    bn['type'] = PyObj('builtin', b_type)
    bn['tuple'] = PyObj('builtin', b_tuple)
    bn['list'] = PyObj('builtin', b_list)
    bn['dict'] = PyObj('builtin', b_dict)
    bn['set'] = PyObj('builtin', b_set)
    bn['True'] = vbool(True)
    bn['False'] = vbool(False)
    bn['None'] = VNONE
    eng.builtin_names = bn
    eng.bvmode = None
    eng.forall_mode = 'assume'
    eng.unit_func = None
    eng.unit_short = None
    eng.strconst = {}
    eng.strconst_by_id = {}
    from . import prims_smt
    prims_smt.install(eng)
    from . import twisted_model
    twisted_model.install(eng)
    from . import stdlib_model
    stdlib_model.install(eng)


# ---------------------------------------------------------------------------------------------- logging

LOG_METHODS = {'debug', 'info', 'warning', 'warn', 'error', 'exception', 'critical', 'log'}


def is_logging_call(node):
    f = node.func
    if isinstance(f, ast.Attribute) and f.attr == 'warn' and isinstance(f.value, ast.Name) and f.value.id == 'warnings':
        return True           # warnings.warn(...) is dropped like logging (extraction rule)
    if isinstance(f, ast.Attribute) and f.attr in LOG_METHODS:
        b = f.value
        if isinstance(b, ast.Name) and b.id in ('log', 'logger', '_log'):
            return True
        if isinstance(b, ast.Attribute) and b.attr in ('_log', 'log', 'logger') and isinstance(b.value, ast.Name) \
                and b.value.id == 'self':
            return True
    return False


# ---------------------------------------------------------------------------------------------- slicing

def norm_index(i, n):
    """Python slice bound normalisation: negative wraps once, then clamp to [0, n]."""
    return z3.If(i < 0, zmax(i + n, z3.IntVal(0)), zmin(i, n))


def slice(eng, base, lo, hi):
    if isinstance(base, V) and base.ty[0] == 'opt':
        eng.prove_internal('slice of None', z3.Not(T.is_none(base)), 'TypeError')
        base = T.opt_val(base)
    if not isinstance(base, V) or base.ty[0] not in ('bytes', 'list'):
        if isinstance(base, V) and base.ty[0] == 'tuple' and lo is None and hi is None:
            return base
        raise_unsupported('slice of %s' % (getattr(base, 'ty', base),))
    n = z3.Length(base.t)
    lo_t = z3.IntVal(0) if lo is None or lo.ty == NONE else z3.simplify(eng.num(lo).t)
    hi_t = n if hi is None or hi.ty == NONE else z3.simplify(eng.num(hi).t)
    return V(base.ty, pyslice(eng, base.t, lo_t, hi_t))


def pyslice(eng, s, lo, hi):
    """Python s[lo:hi] as a small term: an uninterpreted function whose meaning is supplied by two instantiated
    axioms (the common non-negative case in short form, and the general wrap-and-clamp rule)."""
    from .engine import UF
    if z3.is_int_value(lo) and lo.as_long() == 0 and hi.eq(z3.Length(s)):
        return s
    f = UF('pyslice_' + str(s.sort().basis()).replace('(', '_').replace(')', '').replace(' ', ''), s.sort(), I, I, s.sort())
    t = f(s, lo, hi)
    n = z3.Length(s)
    eng.axiom(z3.Implies(z3.And(lo >= 0, lo <= hi), t == z3.Extract(s, lo, hi - lo)))
    nlo, nhi = norm_index(lo, n), norm_index(hi, n)
    eng.axiom(z3.Implies(z3.Not(z3.And(lo >= 0, lo <= hi)),
                         t == z3.Extract(s, nlo, z3.If(nhi > nlo, nhi - nlo, z3.IntVal(0)))))
    return t


def raise_unsupported(msg):
    from .engine import Unsupported
    raise Unsupported(msg)


def index(eng, base, idx):
    from .engine import PyRaise
    if not isinstance(base, V):
        raise_unsupported('subscript of %r' % (base,))
    k = base.ty[0]
    if k == 'opt':
        eng.prove_internal('subscript of None', z3.Not(T.is_none(base)), 'TypeError')
        return index(eng, T.opt_val(base), idx)
    if k == 'tuple':
        iv = z3.simplify(idx.t)
        if not z3.is_int_value(iv):
            raise_unsupported('tuple indexed by a symbolic index')
        items = T.tuple_items(base)
        i = iv.as_long()
        if not -len(items) <= i < len(items):
            raise PyRaise('IndexError')
        return items[i]
    if k == 'struct':
        iv = z3.simplify(idx.t)
        if not z3.is_int_value(iv):
            raise_unsupported('struct indexed by a symbolic index')
        fields = T.STRUCTS[base.ty[1]]
        return T.struct_field(base, fields[iv.as_long()][0])
    if k == 'list':
        if base.ty[1] == ANY:
            raise PyRaise('IndexError')
        n = z3.Length(base.t)
        i = eng.num(idx).t
        eng.prove_internal('list index', z3.And(i >= -n, i < n), 'IndexError')
        j = z3.simplify(z3.If(i < 0, i + n, i))
        item = V(base.ty[1], base.t[j])
        if not eng.pure:
            on_elem_read(eng, base.t, j, item)
        return item
    if k == 'bytes':
        n = z3.Length(base.t)
        i = eng.num(idx).t
        eng.prove_internal('bytes index', z3.And(i >= -n, i < n), 'IndexError')
        j = z3.If(i < 0, i + n, i)
        return V(INT, z3.BV2Int(base.t[z3.simplify(j)], False))
    if k == 'dict':
        if base.ty[1] == ANY:
            raise PyRaise('KeyError')
        key = T.coerce(idx, base.ty[1])
        eng.prove_internal('dict key', dict_member(eng, base, key.t), 'KeyError')
        val = V(base.ty[2], z3.Select(T.dict_map(base), key.t))
        if not eng.pure:
            from . import heapglue
            heapglue.note_entry_read(eng, base, key, val, z3.BoolVal(True))
        return val
    raise_unsupported('subscript of %s' % (base.ty,))


def dict_member(eng, d, key_t):
    """k in d  (membership array; instantiated link to the ordered key list: a member implies a non-empty list)"""
    has = z3.Select(T.dict_has(d), key_t)
    eng.axiom(z3.Implies(has, z3.Length(T.dict_keys(d)) >= 1))
    return has


def dict_key_at(eng, d, i):
    """the i-th key in insertion order is a member"""
    keys = T.dict_keys(d)
    kt = keys[i]
    eng.axiom(z3.Implies(z3.And(i >= 0, i < z3.Length(keys)), z3.Select(T.dict_has(d), kt)))
    return kt


def dict_set(eng, d, key, val):
    """functional dict update preserving insertion order"""
    if d.ty[1] == ANY:
        d = T.empty_dict(('dict', key.ty, val.ty))
    key = T.coerce(key, d.ty[1])
    val = T.coerce(val, d.ty[2])
    keys, has, mp = T.dict_keys(d), T.dict_has(d), T.dict_map(d)
    present = z3.Select(has, key.t)
    nkeys = z3.If(present, keys, z3.Concat(keys, z3.Unit(key.t)))
    return V(d.ty, T.info(d.ty)['mk'](nkeys, z3.Store(has, key.t, z3.BoolVal(True)), z3.Store(mp, key.t, val.t)))


def setitem(eng, base, key, val):
    if isinstance(base, V) and base.ty[0] == 'dict':
        return dict_set(eng, base, key, val)
    if isinstance(base, V) and base.ty[0] == 'opt' and base.ty[1][0] == 'dict':
        eng.prove_internal('item assignment on None', z3.Not(T.is_none(base)), 'TypeError')
        return T.coerce(dict_set(eng, T.opt_val(base), key, val), base.ty)
    raise_unsupported('item assignment on %s' % (getattr(base, 'ty', base),))


def delitem(eng, base, key):
    if isinstance(base, V) and base.ty[0] == 'dict':
        return dict_del(eng, base, key, 'KeyError')
    raise_unsupported('del item on %s' % (getattr(base, 'ty', base),))


def dict_del(eng, d, key, exc):
    from .engine import UF
    key = T.coerce(key, d.ty[1])
    keys, has, mp = T.dict_keys(d), T.dict_has(d), T.dict_map(d)
    present = dict_member(eng, d, key.t)
    if exc:
        eng.prove_internal('dict key', present, exc)
    # keys are distinct (dict representation invariant): removing = the list without the single occurrence
    rm = UF('seq_remove_' + T.mangle(d.ty[1]), keys.sort(), T.sort_of(d.ty[1]), keys.sort())
    nkeys = rm(keys, key.t)
    eng.axiom(z3.Implies(present, z3.Length(nkeys) == z3.Length(keys) - 1))
    eng.axiom(z3.Implies(z3.Not(present), nkeys == keys))
    i = z3.IndexOf(keys, z3.Unit(key.t), 0)
    eng.axiom(z3.Implies(present, nkeys == z3.Concat(z3.Extract(keys, 0, i), z3.Extract(keys, i + 1, z3.Length(keys) - i - 1))))
    return V(d.ty, T.info(d.ty)['mk'](nkeys, z3.Store(has, key.t, z3.BoolVal(False)), mp))


# ---------------------------------------------------------------------------------------------- struct

def _fmt_string(eng, v, node):
    """A struct format must be a constant string (possibly via module constants)."""
    if isinstance(node, ast.Constant) and isinstance(node.value, str):
        return node.value
    return None


def fmt_of(eng, arg, argnode, fr):
    s = _fmt_string(eng, arg, argnode)
    if s is not None:
        return s
    if isinstance(arg, V) and arg.ty == STR:
        for lit, term in T._str_lits.items():
            if term.eq(arg.t):
                return lit
    raise_unsupported('struct format is not a constant string')


def pack_fields(eng, fmt, vals):
    from .engine import parse_struct_fmt, STRUCT_CODES, p_fn, PyRaise
    codes = parse_struct_fmt(fmt)
    flat = []
    for ch, cnt in codes:
        flat.extend([ch] * cnt)
    if len(flat) != len(vals):
        raise PyRaise('struct.error', msg='pack expected %d items got %d' % (len(flat), len(vals)))
    out = None
    for ch, v in zip(flat, vals):
        size, lo, hi, nm = STRUCT_CODES[ch]
        if not isinstance(v, V):
            raise PyRaise('struct.error', msg='non-value packed')
        if v.ty[0] == 'opt' and v.ty[1] == INT:
            eng.prove_internal('required argument is not an integer', z3.Not(T.is_none(v)), 'struct.error')
            v = T.opt_val(v)
        if v.ty == BOOL:
            v = T.coerce(v, INT)
        if v.ty != INT:
            raise PyRaise('struct.error', msg='required argument is not an integer (%s)' % (T.mangle(v.ty),))
        eng.prove_internal('struct range', z3.And(v.t >= lo, v.t <= hi), 'struct.error')
        term = p_fn(nm)(v.t)
        eng.axiom(z3.Length(term) == size)
        out = concat(out, term)
    if out is None:
        out = z3.Empty(T.BytesSort)
    return V(BYTES, out)


def unpack_at(eng, fmt, data_t, pos_t):
    """fields of fmt decoded from data at pos (no bounds check: caller established it)."""
    from .engine import parse_struct_fmt, STRUCT_CODES, u_fn
    codes = parse_struct_fmt(fmt)
    vals = []
    off = 0
    org = slice_origin(data_t)
    for ch, cnt in codes:
        size, lo, hi, nm = STRUCT_CODES[ch]
        for _ in range(cnt):
            p = z3.simplify(pos_t + off)
            term = u_fn(nm)(data_t, p)
            eng.axiom(z3.And(term >= lo, term <= hi))
            if org is not None:
                # decoding inside a slice == decoding the base at the shifted position (when the slice lies in the base)
                base, start, ln = org
                inside = z3.And(start >= 0, p >= 0, p + size <= ln, start + ln <= z3.Length(base))
                eng.axiom(z3.Implies(inside, term == u_fn(nm)(base, z3.simplify(start + p))))
            vals.append(V(INT, term))
            off += size
    return vals, off


def slice_origin(t):
    """If t is seq.extract(base, start, len) return (base, start, len)."""
    if z3.is_app(t) and t.decl().kind() == z3.Z3_OP_SEQ_EXTRACT:
        return t.arg(0), t.arg(1), t.arg(2)
    if z3.is_app(t) and t.decl().name().startswith('pyslice_'):
        return t.arg(0), t.arg(1), t.arg(2) - t.arg(1)
    return None


def struct_unpack(eng, fmt, data):
    """struct.unpack(fmt, data): raises struct.error unless len(data) == calcsize(fmt)."""
    from .engine import parse_struct_fmt, STRUCT_CODES, u_fn
    if data.ty[0] == 'opt':
        eng.prove_internal('unpack of None', z3.Not(T.is_none(data)), 'TypeError')
        data = T.opt_val(data)
    size = calcsize(fmt)
    eng.prove_internal('unpack requires a buffer of %d bytes' % size, z3.Length(data.t) == size, 'struct.error')
    org = slice_origin(data.t)
    vals, _ = unpack_at(eng, fmt, data.t, z3.IntVal(0))
    if org is not None:
        # decoding a slice == decoding the base at the slice start, when the slice lies inside the base
        base, start, ln = org
        inside = z3.And(start >= 0, start + size <= z3.Length(base), ln >= size)
        vals2, _ = unpack_at(eng, fmt, base, start)
        for a, b in zip(vals, vals2):
            eng.axiom(z3.Implies(inside, a.t == b.t))
        # prefer the base-relative terms: they are what specs use
        ok = z3.simplify(inside)
        vals = [V(INT, z3.If(inside, b.t, a.t)) if not z3.is_true(ok) else b for a, b in zip(vals, vals2)]
    return T.mk_tuple(vals)


def calcsize(fmt):
    from .engine import parse_struct_fmt, STRUCT_CODES
    return sum(STRUCT_CODES[ch][0] * cnt for ch, cnt in parse_struct_fmt(fmt))


# ---------------------------------------------------------------------------------------------- builtin functions

def b_len(eng, args, kwargs, fr, node):
    from .engine import PyRaise
    v = args[0]
    if not isinstance(v, V):
        raise_unsupported('len of %r' % (v,))
    k = v.ty[0]
    if k == 'opt':
        eng.prove_internal('len of None', z3.Not(T.is_none(v)), 'TypeError')
        return b_len(eng, [T.opt_val(v)], kwargs, fr, node)
    if k in ('bytes', 'list'):
        if k == 'list' and v.ty[1] == ANY:
            return vint(0)
        return V(INT, z3.Length(v.t))
    if k == 'dict':
        if v.ty[1] == ANY:
            return vint(0)
        return V(INT, z3.Length(T.dict_keys(v)))
    if k == 'tuple':
        return vint(len(v.ty[1]))
    if k == 'struct':
        return vint(len(T.STRUCTS[v.ty[1]]))
    if k == 'str':
        from .engine import UF
        t = UF('str_len', T.StrSort, I)(v.t)
        eng.axiom(t >= 0)
        return V(INT, t)
    if k == 'none':
        raise PyRaise('TypeError', msg='len(None)')
    raise_unsupported('len of %s' % (v.ty,))


TYPE_KINDS = {'bytes': ('bytes',), 'str': ('str',), 'int': ('int', 'bool'), 'bool': ('bool',), 'float': ('real',),
              'tuple': ('tuple',), 'list': ('list',), 'dict': ('dict',)}


def isinstance_z3(eng, v, tobj):
    """isinstance(v, tobj) -> z3 Bool (decided from the static type of v)"""
    from .engine import PyObj
    if isinstance(tobj, V) and tobj.ty[0] == 'tuple':
        raise_unsupported('isinstance with tuple value')
    if isinstance(tobj, PyObj) and tobj.kind == 'tupleobj':
        return z3.Or([isinstance_z3(eng, v, t) for t in tobj.payload])
    if not isinstance(v, V):
        return z3.BoolVal(False)
    if v.ty[0] == 'opt':
        inner = isinstance_z3(eng, T.opt_val(v), tobj)
        return z3.And(z3.Not(T.is_none(v)), inner)
    if v.ty == NONE:
        return z3.BoolVal(False)
    if v.ty == ANY:
        return z3.FreshConst(z3.BoolSort(), 'isinst')
    if isinstance(tobj, PyObj) and tobj.kind in ('type', 'builtin'):
        name = tobj.payload if tobj.kind == 'type' else getattr(tobj.payload, '__name__', '')[2:]
        if name == 'bytearray' or v.ty == T.BYTEARRAY:
            return z3.BoolVal(name == 'object' or (name == 'bytearray') == (v.ty == T.BYTEARRAY) and v.ty[0] == 'bytes')
        kinds = TYPE_KINDS.get(name)
        if kinds is None:
            if name == 'object':
                return z3.BoolVal(True)
            raise_unsupported('isinstance against %s' % name)
        return z3.BoolVal(v.ty[0] in kinds)
    if isinstance(tobj, PyObj) and tobj.kind == 'class':
        ci = tobj.payload
        if v.ty[0] == 'struct':
            return z3.BoolVal(v.ty[1] == ci.name or ci.name == 'BaseStruct')
        if v.ty[0] == 'ref':
            return z3.BoolVal(v.ty[1] == ci.name)
        return z3.BoolVal(False)
    if isinstance(tobj, PyObj) and tobj.kind == 'excclass':
        if v.ty[0] == 'exc':
            return z3.BoolVal(eng.exc.issub(v.ty[1], tobj.payload))
        if v.ty == ('ref', 'Failure'):
            # a bare exception instance modelled as a Failure-like object (see twisted_model: `bare`)
            from . import heap as H
            from .twisted_model import exc_tag_in
            return z3.And(H.heap_read(eng, v, 'bare').t, exc_tag_in(eng, H.heap_read(eng, v, 'exc_tag').t, tobj.payload))
        return z3.BoolVal(False)
    if isinstance(tobj, PyObj) and tobj.kind == 'extern' and tobj.payload.endswith('.Failure'):
        if isinstance(v, V) and v.ty == ('ref', 'Failure'):
            from . import heap as H
            return z3.Not(H.heap_read(eng, v, 'bare').t)
        return z3.BoolVal(False)
    if isinstance(tobj, PyObj) and tobj.kind == 'extern' and tobj.payload.endswith('.Deferred'):
        return z3.BoolVal(isinstance(v, V) and v.ty == ('ref', 'Deferred'))
    raise_unsupported('isinstance against %r' % (tobj,))


def b_isinstance(eng, args, kwargs, fr, node):
    from .engine import PyObj
    tnode = node.args[1]
    if isinstance(tnode, ast.Tuple):
        tobjs = [eng.eval(e, fr) for e in tnode.elts]
        return vbool(z3.simplify(z3.Or([isinstance_z3(eng, args[0], t) for t in tobjs])))
    return vbool(z3.simplify(isinstance_z3(eng, args[0], args[1])))


def b_type(eng, args, kwargs, fr, node):
    from .engine import PyObj
    v = args[0]
    if isinstance(v, V) and v.ty == STR:
        return PyObj('type', 'str')
    if isinstance(v, V) and v.ty == BYTES:
        return PyObj('type', 'bytes')
    raise_unsupported('type() of %r' % (v,))


def b_sum(eng, args, kwargs, fr, node):
    """sum(...) of ints: an unconstrained integer (only ever used for log messages in the code under contract)"""
    return eng.fresh(INT, 'sum')


def b_super(eng, args, kwargs, fr, node):
    """super(Class, self): attribute lookups start at Class's base (single inheritance inside one module)"""
    from .engine import PyObj
    if len(args) == 2 and isinstance(args[0], PyObj) and args[0].kind == 'class':
        return PyObj('super', (args[0].payload, args[1]))
    raise_unsupported('super() in this form')


def b_octets(eng, args, kwargs, fr, node):
    """contract language: the octets a key stands for - UTF-8 of a str, the content of bytes / bytearray"""
    v = args[0]
    if v.ty == STR:
        from .engine import UF
        b = UF('enc_utf8', T.StrSort, T.BytesSort)(v.t)
        return V(BYTES, b)
    if v.ty[0] == 'bytes':
        return V(BYTES, v.t)
    raise_unsupported('octets() of %s' % (v.ty,))


def type_call(eng, name, args, kwargs, fr, node):
    """bytes(x) / bytearray(x) / bytearray(s, "UTF-8") as conversions"""
    if name in ('bytes', 'bytearray') and len(args) == 1 and isinstance(args[0], V) and args[0].ty[0] == 'bytes':
        return V(BYTES if name == 'bytes' else T.BYTEARRAY, args[0].t)
    if name == 'bytearray' and len(args) == 2 and isinstance(args[0], V) and args[0].ty == STR:
        from .engine import PyObj
        b = call_method(eng, PyObj('method', (args[0], 'encode'), None), [args[1]], {}, fr, node)
        return V(T.BYTEARRAY, b.t)
    if name == 'bytearray' and not args:
        return V(T.BYTEARRAY, z3.Empty(T.BytesSort))
    raise_unsupported('call of type %s with %s' % (name, [getattr(a, 'ty', a) for a in args]))


def b_int(eng, args, kwargs, fr, node):
    v = args[0]
    if v.ty == INT:
        return v
    if v.ty == BOOL:
        return T.coerce(v, INT)
    if v.ty == REAL:
        # int() truncates toward zero
        t = v.t
        fl = z3.ToInt(t)
        return V(INT, z3.If(t >= 0, fl, z3.If(z3.ToReal(fl) == t, fl, fl + 1)))
    raise_unsupported('int() of %s' % (v.ty,))


def b_float(eng, args, kwargs, fr, node):
    v = args[0]
    if v.ty in (INT, BOOL):
        return eng.num(v, REAL)
    if v.ty == REAL:
        return v
    raise_unsupported('float() of %s' % (v.ty,))


def b_tuple(eng, args, kwargs, fr, node):
    if not args:
        return T.mk_tuple([])
    v = args[0]
    if v.ty[0] == 'tuple':
        return v
    if v.ty[0] == 'list':
        # tuple(list): immutable snapshot; modelled as the same sequence value
        return v
    raise_unsupported('tuple() of %s' % (v.ty,))


def b_forall_items(eng, args, kwargs, fr, node):
    """contract language: forall_items(xs, pred) == all(pred(x) for x in xs)  (pred: a pure spec function of one item).
    No quantifier reaches the solver: when assumed, the fact is instantiated by the generator at every element read
    from xs; when it has to be proved, it is proved for a fresh (skolem) index."""
    xs, pred = args[0], args[1]
    if xs.ty[0] != 'list':
        raise_unsupported('forall_items over %s' % (xs.ty,))
    if xs.ty[1] == ANY:
        return vbool(True)
    if eng.forall_mode == 'assume':
        eng.st.ghost.setdefault('foralls', []).append((xs, pred, fr, node))
        return vbool(True)
    j = eng.fresh(INT, 'sk')
    item = V(xs.ty[1], xs.t[j.t])
    body = eng.truth(eng.call(pred, [item], {}, fr, node))
    return vbool(z3.Implies(z3.And(j.t >= 0, j.t < z3.Length(xs.t)), body))


def on_elem_read(eng, xs_t, idx_t, item):
    for xs, pred, fr, node in eng.st.ghost.get('foralls', []):
        if xs.t.eq(xs_t):
            saved = eng.pure
            eng.pure = True
            try:
                body = eng.truth(eng.call(pred, [item], {}, fr, node))
            finally:
                eng.pure = saved
            eng.assume(z3.Implies(z3.And(idx_t >= 0, idx_t < z3.Length(xs_t)), body))


def b_time_read(eng, args, kwargs, fr, node):
    """contract language: the k-th value time.time() returned during this activation"""
    k = z3.simplify(args[0].t).as_long()
    return V(REAL, z3.Const('time_read_%d' % k, z3.RealSort()))


def b_drain(eng, args, kwargs, fr, node):
    """contract language: items produced by draining a generator value"""
    from .contracts import CONTRACTS
    g = args[0]
    if not isinstance(g, V) or g.ty[0] != 'gen':
        raise_unsupported('drain() of a non-generator')
    return eng.drain_term(g, CONTRACTS[g.ty[1]])


def b_list(eng, args, kwargs, fr, node):
    if not args:
        return V(('list', ANY), None)
    v = args[0]
    if isinstance(v, V) and v.ty[0] == 'gen':
        items, after = eng.drain_gen(v, fr)
        if after is not None:
            after()
        return items
    from .engine import PyObj as _PO
    if isinstance(v, _PO) and v.kind == 'dictview':
        d, what = v.payload
        if d.ty[1] == ANY:
            return V(('list', ANY), None)
        keys, mp = T.dict_keys(d), T.dict_map(d)
        if what == 'keys':
            return V(('list', d.ty[1]), keys)
        # a snapshot list of the values: L[i] == map[keys[i]] (instantiated at element reads)
        ety = d.ty[2] if what == 'values' else ('tuple', (d.ty[1], d.ty[2]))
        L = eng.fresh(('list', ety), 'snapshot')
        eng.assume(z3.Length(L.t) == z3.Length(keys))
        eng.st.ghost.setdefault('snapshots', {})[L.t.get_id()] = (d, what, eng.st.ghost.get('nhavoc', 0))
        return L
    if v.ty[0] == 'list':
        return v
    if v.ty[0] == 'dict':
        return V(('list', v.ty[1]), T.dict_keys(v))
    if v.ty[0] == 'tuple':
        items = T.tuple_items(v)
        if not items:
            return V(('list', ANY), None)
        units = [z3.Unit(i.t) for i in items]
        return V(('list', items[0].ty), units[0] if len(units) == 1 else z3.Concat(*units))
    raise_unsupported('list() of %s' % (v.ty,))


def b_dict(eng, args, kwargs, fr, node):
    if not args and not kwargs:
        return V(('dict', ANY, ANY), None)
    if not args:
        # dict(k=v, ...): only ever passed on as keyword bundles (callbackKeywords=...); kept as an opaque bundle
        from .engine import PyObj
        return PyObj('kwbundle', dict(kwargs))
    raise_unsupported('dict() with arguments')


def b_set(eng, args, kwargs, fr, node):
    """set(): modelled as a list (only emptiness / iteration are used by the code under contract; duplicates harmless)"""
    if not args:
        return V(('list', ANY), None)
    return b_list(eng, args, kwargs, fr, node)


def b_min(eng, args, kwargs, fr, node):
    if len(args) >= 2:
        r = args[0]
        for a in args[1:]:
            x, y = eng.num(r), eng.num(a)
            if x.ty != y.ty:
                x, y = eng.num(x, REAL), eng.num(y, REAL)
            r = V(x.ty, z3.If(y.t < x.t, y.t, x.t))
        return r
    raise_unsupported('min of iterable')


def b_max(eng, args, kwargs, fr, node):
    if len(args) >= 2:
        r = args[0]
        for a in args[1:]:
            x, y = eng.num(r), eng.num(a)
            if x.ty != y.ty:
                x, y = eng.num(x, REAL), eng.num(y, REAL)
            r = V(x.ty, z3.If(y.t > x.t, y.t, x.t))
        return r
    raise_unsupported('max of iterable')


def b_abs(eng, args, kwargs, fr, node):
    x = eng.num(args[0])
    return V(x.ty, z3.If(x.t >= 0, x.t, -x.t))


def b_range(eng, args, kwargs, fr, node):
    from .engine import PyObj
    return PyObj('range', args)


def b_enumerate(eng, args, kwargs, fr, node):
    from .engine import PyObj
    return PyObj('enumerate', args)


def b_zip(eng, args, kwargs, fr, node):
    from .engine import PyObj
    return PyObj('zip', args)


def b_reversed(eng, args, kwargs, fr, node):
    from .engine import UF
    v = args[0]
    if v.ty[0] != 'list' or v.ty[1] == ANY:
        raise_unsupported('reversed() of %s' % (v.ty,))
    r = eng.fresh(v.ty, 'reversed')
    n = z3.Length(v.t)
    eng.assume(z3.Length(r.t) == n)
    eng.st.ghost.setdefault('reversed_of', {})[r.t.get_id()] = v
    snap = eng.st.ghost.get('snapshots', {}).get(v.t.get_id())
    if snap is not None:
        eng.st.ghost.setdefault('rev_snapshots', {})[r.t.get_id()] = (v, snap)
    return r


def b_hasattr(eng, args, kwargs, fr, node):
    v = args[0]
    name = fmt_of(eng, args[1], node.args[1], fr)
    if isinstance(v, V) and v.ty[0] == 'struct':
        return vbool(any(f == name for f, _, _ in T.STRUCTS[v.ty[1]]))
    raise_unsupported('hasattr on %s' % (getattr(v, 'ty', v),))


def b_implies(eng, args, kwargs, fr, node):
    return vbool(z3.Implies(eng.truth(args[0]), eng.truth(args[1])))


def b_ite(eng, args, kwargs, fr, node):
    return eng.ite(eng.truth(args[0]), args[1], args[2])


def b_old(eng, args, kwargs, fr, node):
    raise_unsupported('old() must be applied to a plain name')


def b_repr(eng, args, kwargs, fr, node):
    return eng.fresh(STR, 'repr')


def b_hexlify(eng, args, kwargs, fr, node):
    return eng.fresh(BYTES, 'hex')


def b_unpack_tuple(eng, args, kwargs, fr, node):
    fmt = fmt_of(eng, args[0], node.args[0], fr)
    vals, _ = unpack_at(eng, fmt, args[1].t, eng.num(args[2]).t)
    return T.mk_tuple(vals)


def b_calcsize(eng, args, kwargs, fr, node):
    fmt = fmt_of(eng, args[0], node.args[0], fr)
    return vint(calcsize(fmt))


def fmt_tuple_ty(fmt):
    from .engine import parse_struct_fmt
    n = sum(cnt for _, cnt in parse_struct_fmt(fmt))
    return ('tuple', tuple([INT] * n))


BUILTIN_FUNCS = {
    'mkgen': lambda *a: b_mkgen(*a), 'drain': b_drain, 'forall_items': b_forall_items, 'time_read': b_time_read,
    'int': None,
    'unpack_tuple': b_unpack_tuple, 'calcsize': b_calcsize,
    'len': b_len, 'isinstance': b_isinstance, 'min': b_min, 'max': b_max, 'abs': b_abs, 'range': b_range,
    'octets': b_octets, 'super': b_super, 'sum': b_sum, 'enumerate': b_enumerate, 'reversed': b_reversed, 'hasattr': b_hasattr, 'zip': b_zip, 'implies': b_implies, 'ite': b_ite, 'repr': b_repr,
}


# ---------------------------------------------------------------------------------------------- module attrs

def pyobj_attr(eng, base, attr):
    from .engine import PyObj, UF
    k = base.kind
    if k == 'module':
        name = base.payload + '.' + attr
        if name in MODULE_FUNCS:
            return PyObj('builtin', MODULE_FUNCS[name])
        if name == 'struct.error':
            return PyObj('excclass', 'struct.error')
        if name == 'sys.maxsize':
            return vint(2 ** 63 - 1)
        if name == 'struct.Struct':
            return PyObj('builtin', b_struct_Struct)
        raise_unsupported('module attribute %s' % name)
    if k == 'repomodule':
        r = eng.module_name(base.payload, attr)
        if r is None:
            raise_unsupported('module %s has no %s' % (base.payload.name, attr))
        return r
    if k == 'class':
        ci = base.payload
        if attr in ci.methods:
            return PyObj('bound', ci.methods[attr], None)
        if attr in ci.assigns:
            fr = None
            saved = eng.unit_module
            eng.unit_module = ci.module
            try:
                from .engine import Frame
                f = Frame(None)
                # class-level constants may refer to earlier class-level names
                for nm, val in ci.assigns.items():
                    if nm == attr:
                        break
                return eng.eval_class_const(ci, attr)
            finally:
                eng.unit_module = saved
        raise_unsupported('class %s has no attribute %s' % (ci.name, attr))
    if k == 'extern':
        return PyObj('extern', base.payload + '.' + attr)
    if k == 'super':
        ci, selfv = base.payload
        mod = ci.module
        seen = set()
        cur = ci
        while cur is not None and cur.name not in seen:
            seen.add(cur.name)
            nxt = None
            for b in cur.bases:
                if b in mod.classes:
                    nxt = mod.classes[b]
                    break
            cur = nxt
            if cur is not None and attr in cur.methods:
                return PyObj('bound', cur.methods[attr], selfv)
        raise_unsupported('super().%s: no base class of %s in its module defines it' % (attr, ci.name))
    if k == 'excclass' and attr == 'raise_for_errno' and base.payload == 'BrokerResponseError':
        return PyObj('builtin', b_raise_for_errno)
    if k == 'type':
        raise_unsupported('attribute %s of type %s' % (attr, base.payload))
    if k == 'structobj':
        return PyObj('builtin', lambda e, a, kw, fr, node, _s=base, _m=attr: struct_obj_method(e, _s, _m, a))
    raise_unsupported('attribute %s of %r' % (attr, base))


def errno_table(eng):
    """{errno: exception class name}, extracted mechanically from the literal `BrokerResponseError.errnos = {...}` in
    /repo/afkak/common.py on every run"""
    tab = getattr(eng, '_errno_table', None)
    if tab is None:
        tab = {}
        mod = eng.repo.modules.get('afkak.common')
        for n in (mod.tree.body if mod is not None else []):
            if isinstance(n, ast.Assign) and len(n.targets) == 1 and isinstance(n.targets[0], ast.Attribute) \
                    and n.targets[0].attr == 'errnos' and isinstance(n.value, ast.Dict):
                for k_, v_ in zip(n.value.keys, n.value.values):
                    try:
                        tab[ast.literal_eval(k_)] = v_.id
                    except Exception:
                        raise_unsupported('errnos table entry that is not <int literal>: <class name>')
        if not tab:
            raise_unsupported('BrokerResponseError.errnos table not found in afkak/common.py')
        eng._errno_table = tab
    return tab


def b_raise_for_errno(eng, args, kwargs, fr, node):
    """BrokerResponseError.raise_for_errno(errno, *args): returns None for 0, raises the class the table names for the
    code, a plain BrokerResponseError for an unlisted code.  Codes are grouped by which of the exception classes the
    unit under verification mentions they are instances of, so the number of cases stays small."""
    from .engine import PyRaise
    errno = eng.num(args[0])
    if eng.branch(errno.t == 0):
        return VNONE
    tab = errno_table(eng)
    mentioned = set()
    if eng.unit_func is not None:
        for n in ast.walk(eng.unit_func.node):
            if isinstance(n, ast.Name) and eng.exc.known(n.id):
                mentioned.add(n.id)
    groups = {}
    for code, cls in sorted(tab.items()):
        if code == 0 or not eng.exc.known(cls):
            continue
        sig = frozenset(m for m in mentioned if eng.exc.issub(cls, m))
        groups.setdefault(sig, []).append((code, cls))
    conds, reps = [], []
    for sig, members in sorted(groups.items(), key=lambda kv: sorted(kv[0])):
        conds.append(z3.Or([errno.t == c for c, _ in members]))
        reps.append(members[0][1])
    listed = z3.Or([errno.t == c for c in tab if c != 0])
    conds.append(z3.Not(listed))
    reps.append('BrokerResponseError')
    i = eng.choose(conds)
    raise PyRaise(reps[i])


def b_struct_Struct(eng, args, kwargs, fr, node):
    from .engine import PyObj
    fmt = fmt_of(eng, args[0], node.args[0], fr)
    return PyObj('structobj', fmt)


def struct_obj_method(eng, sobj, meth, args):
    fmt = sobj.payload
    if meth == 'pack':
        return pack_fields(eng, fmt, args)
    if meth == 'unpack':
        return struct_unpack(eng, fmt, args[0])
    if meth == 'unpack_from':
        data = args[0]
        size = calcsize(fmt)
        eng.prove_internal('unpack_from buffer', z3.Length(data.t) >= size, 'struct.error')
        vals, _ = unpack_at(eng, fmt, data.t, z3.IntVal(0))
        return T.mk_tuple(vals)
    raise_unsupported('Struct.%s' % meth)


def m_struct_pack(eng, args, kwargs, fr, node):
    fmt = fmt_of(eng, args[0], node.args[0], fr)
    rest = []
    for a in args[1:]:
        if isinstance(a, tuple) and a[0] == '*':
            raise_unsupported('struct.pack with *list')
        rest.append(a)
    return pack_fields(eng, fmt, rest)


def m_struct_unpack(eng, args, kwargs, fr, node):
    fmt = fmt_of(eng, args[0], node.args[0], fr)
    return struct_unpack(eng, fmt, args[1])


def m_struct_calcsize(eng, args, kwargs, fr, node):
    fmt = fmt_of(eng, args[0], node.args[0], fr)
    return vint(calcsize(fmt))


def m_crc32(eng, args, kwargs, fr, node):
    from .engine import UF
    b = args[0]
    if b.ty[0] == 'opt':
        eng.prove_internal('crc32 of None', z3.Not(T.is_none(b)), 'TypeError')
        b = T.opt_val(b)
    t = UF('crc32', T.BytesSort, I)(b.t)
    eng.axiom(z3.And(t >= 0, t < 2 ** 32))
    return V(INT, t)


def m_time(eng, args, kwargs, fr, node):
    reads = eng.st.ghost.setdefault('time_reads', [])
    t = V(REAL, z3.Const('time_read_%d' % len(reads), z3.RealSort()))
    eng.axiom(z3.And(t.t >= 0, t.t < 9000000000000000))     # wall clock below year ~287000 (stated assumption)
    reads.append(t)
    return t


def m_iter_unpack(eng, args, kwargs, fr, node):
    from .engine import PyObj
    fmt = fmt_of(eng, args[0], node.args[0], fr)
    data = args[1]
    if data.ty[0] == 'opt':
        eng.prove_internal('iter_unpack of None', z3.Not(T.is_none(data)), 'TypeError')
        data = T.opt_val(data)
    return PyObj('iter_unpack', (fmt, data))


def b_mkgen(eng, args, kwargs, fr, node):
    """contract language: the generator value `qualname(*args)` (lazy, nothing executed)"""
    from .contracts import CONTRACTS
    qn = fmt_of(eng, args[0], node.args[0], fr)
    c = CONTRACTS[qn]
    tys = tuple(p[1] for p in c.params) + tuple(T.parse_ty(c.closure_env[n]) for n in c.closure_env if c.closure_env[n] != 'closure')
    vals = []
    for a, t in zip(args[1:], tys):
        if a.ty[0] == 'opt' and t[0] != 'opt':
            a = T.opt_val(a)      # contract text: a null argument is outside the callee's domain (underspecified)
        vals.append(T.coerce(a, t))
    return V(('gen', qn, tys), T.mk_tuple(vals).t)


MODULE_FUNCS = {
    'struct.iter_unpack': m_iter_unpack,
    'struct.pack': m_struct_pack, 'struct.unpack': m_struct_unpack, 'struct.calcsize': m_struct_calcsize,
    'zlib.crc32': m_crc32, 'time.time': m_time,
}

EXTERN = {}


def extern(name):
    def deco(f):
        EXTERN[name] = f
        return f
    return deco


@extern('binascii.hexlify')
def _hexlify(eng, args, kwargs, fr, node):
    return eng.fresh(BYTES, 'hex')


@extern('twisted.python.compat.nativeString')
def _native_string(eng, args, kwargs, fr, node):
    v = args[0]
    if isinstance(v, V) and v.ty == STR:
        return v
    raise_unsupported('nativeString of %s' % (getattr(v, 'ty', v),))


# ---------------------------------------------------------------------------------------------- methods on values

def call_method(eng, fobj, args, kwargs, fr, node):
    from .engine import PyRaise, UF
    base, attr = fobj.payload
    tnode = fobj.extra     # AST of the receiver (for write-back of mutations)
    k = base.ty[0]
    if k == 'bytes':
        if attr == 'decode':
            enc = _const_str(args[0] if args else kwargs.get('encoding'), node)
            ok = UF('is_%s_b' % enc, T.BytesSort, z3.BoolSort())(base.t)
            eng.prove_internal('decodable', ok, 'UnicodeDecodeError')
            s = UF('dec_%s' % enc, T.BytesSort, T.StrSort)(base.t)
            eng.axiom(z3.Implies(ok, UF('enc_%s' % enc, T.StrSort, T.BytesSort)(s) == base.t))
            eng.axiom(z3.Implies(ok, UF('is_%s_s' % enc, T.StrSort, z3.BoolSort())(s)))
            return V(STR, s)
        if attr == 'join':
            lst = args[0]
            if lst.ty[0] != 'list' or lst.ty[1] not in (BYTES, ANY):
                raise_unsupported('bytes.join of %s' % (lst.ty,))
            sep = z3.simplify(z3.Length(base.t))
            if not (z3.is_int_value(sep) and sep.as_long() == 0):
                raise_unsupported('bytes.join with non-empty separator')
            if lst.ty[1] == ANY:
                return vbytes(b'')
            return V(BYTES, join_bytes(eng, lst.t))
    if k == 'str':
        if attr == 'encode':
            enc = _const_str(args[0] if args else kwargs.get('encoding'), node)
            ok = UF('is_%s_s' % enc, T.StrSort, z3.BoolSort())(base.t)
            if enc == 'utf8':
                eng.axiom(ok)    # every str encodes as UTF-8 (lone surrogates ignored: stated assumption)
            eng.prove_internal('encodable', ok, 'UnicodeEncodeError')
            b = UF('enc_%s' % enc, T.StrSort, T.BytesSort)(base.t)
            eng.axiom(z3.Implies(ok, UF('dec_%s' % enc, T.BytesSort, T.StrSort)(b) == base.t))
            eng.axiom(z3.Implies(ok, UF('is_%s_b' % enc, T.BytesSort, z3.BoolSort())(b)))
            return V(BYTES, b)
        if attr == 'format':
            return eng.fresh(STR, 'fmt')
    if k == 'list':
        if attr in ('append', 'add'):
            item = args[0]
            lst = base
            if not eng.pure:
                from .twisted_model import site_ordinal
                cfr = getattr(eng, 'cur_frame', None)
                if cfr is not None:
                    cfr.ghost['appended'] = item
                checkpoint(eng, 'call:append#%d' % site_ordinal(eng, node, 'append'))
            if lst.ty[1] == ANY:
                lst = V(('list', item.ty), z3.Empty(T.sort_of(('list', item.ty))))
            item = T.coerce(item, lst.ty[1])
            new = V(lst.ty, concat(lst.t, z3.Unit(item.t)))
            if lst.ty[1] == BYTES:
                j = join_fn()
                eng.axiom(j(new.t) == concat(j(lst.t), item.t))
            eng.assign(tnode, new, fr)
            return VNONE
        if attr == 'pop' and not args:
            n = z3.Length(base.t)
            eng.prove_internal('pop from empty list', n > 0, 'IndexError')
            item = V(base.ty[1], base.t[n - 1])
            eng.assign(tnode, V(base.ty, z3.Extract(base.t, 0, n - 1)), fr)
            return item
        if attr == 'sort':
            # list.sort(key=..., reverse=...): the list becomes some permutation of itself - an unknown list of the same
            # length (a sound weakening; the ordering the key induces is not represented)
            if base.ty[1] == ANY:
                return VNONE
            if base.ty[1] == INT and not args and not kwargs:
                # a list of ints sorted without key/reverse: the ascending permutation (stdlib_model.sorted_axioms)
                from . import stdlib_model as SM
                SM.sorted_axioms(eng, base.t)
                eng.assign(tnode, V(base.ty, SM.sorted_fn()(base.t)), fr)
                return VNONE
            new = eng.fresh(base.ty, 'sorted_inplace')
            eng.assume(z3.Length(new.t) == z3.Length(base.t))
            eng.assign(tnode, new, fr)
            return VNONE
        if attr == 'remove':
            # removes an occurrence of the item (the first; any index holding the item over-approximates that);
            # ValueError when absent
            item = T.coerce(args[0], base.ty[1])
            n = z3.Length(base.t)
            eng.prove_internal('list.remove(x): x not in list', z3.Contains(base.t, z3.Unit(item.t)), 'ValueError')
            kx = eng.fresh(INT, 'rm_at')
            eng.assume(z3.And(kx.t >= 0, kx.t < n, base.t[kx.t] == item.t))
            eng.assign(tnode, V(base.ty, concat(z3.Extract(base.t, 0, kx.t), z3.Extract(base.t, kx.t + 1, n - kx.t - 1))), fr)
            return VNONE
        if attr == 'extend':
            other = args[0]
            lst = base
            if other.ty[0] != 'list':
                raise_unsupported('extend with %s' % (other.ty,))
            if other.ty[1] == ANY:
                return VNONE
            if lst.ty[1] == ANY:
                lst = V(other.ty, z3.Empty(T.sort_of(other.ty)))
            if lst.ty != other.ty:
                raise_unsupported('extend with different element type')
            eng.assign(tnode, V(lst.ty, concat(lst.t, other.t)), fr)
            return VNONE
    if k == 'dict':
        return dict_method(eng, base, attr, args, kwargs, fr, node, tnode)
    if k == 'opt':
        eng.prove_internal('method of None', z3.Not(T.is_none(base)), 'AttributeError')
        fobj2 = type(fobj)('method', (T.opt_val(base), attr), tnode)
        return call_method(eng, fobj2, args, kwargs, fr, node)
    if k == 'none':
        raise PyRaise('AttributeError', msg='None.%s' % attr)
    raise_unsupported('method %s of %s' % (attr, base.ty))


def _const_str(v, node):
    # the encoding argument is always a literal in afkak
    for a in list(node.args) + [kw.value for kw in node.keywords]:
        if isinstance(a, ast.Constant) and isinstance(a.value, str):
            return a.value.replace('-', '').lower()
    raise_unsupported('non-literal encoding name')


def join_fn():
    from .engine import UF
    return UF('join_bytes', z3.SeqSort(T.BytesSort), T.BytesSort)


def join_bytes(eng, lst_t):
    j = join_fn()
    eng.axiom(j(z3.Empty(z3.SeqSort(T.BytesSort))) == z3.Empty(T.BytesSort))
    return j(lst_t)


def dict_method(eng, d, attr, args, kwargs, fr, node, tnode):
    from .engine import PyObj, PyRaise
    if attr in ('items', 'values', 'keys'):
        return PyObj('dictview', (d, attr))
    if d.ty[1] == ANY:
        if attr == 'get':
            return args[1] if len(args) > 1 else VNONE
        if attr == 'pop':
            if len(args) > 1:
                return args[1]
            raise PyRaise('KeyError')
        raise_unsupported('dict.%s on empty literal' % attr)
    keys, mp = T.dict_keys(d), T.dict_map(d)
    from . import heapglue
    if attr == 'get':
        key = T.coerce(args[0], d.ty[1])
        dflt = args[1] if len(args) > 1 else VNONE
        present = dict_member(eng, d, key.t)
        val = V(d.ty[2], z3.Select(mp, key.t))
        if eng.pure:
            return eng.ite(present, val, dflt)
        if eng.branch(present):
            heapglue.note_entry_read(eng, d, key, val, z3.BoolVal(True))
            return val
        return dflt
    if attr == 'pop':
        key = T.coerce(args[0], d.ty[1])
        present = dict_member(eng, d, key.t)
        val = V(d.ty[2], z3.Select(mp, key.t))
        if len(args) > 1:
            if eng.branch(present):
                heapglue.note_entry_read(eng, d, key, val, z3.BoolVal(True))
                eng.assign(tnode, dict_del(eng, d, key, None), fr)
                return val
            return args[1]
        nd = dict_del(eng, d, key, 'KeyError')
        heapglue.note_entry_read(eng, d, key, val, z3.BoolVal(True))
        eng.assign(tnode, nd, fr)
        return val
    if attr == 'popitem':
        n = z3.Length(keys)
        eng.prove_internal('popitem from empty dict', n > 0, 'KeyError')
        last = True
        if args:
            lv = z3.simplify(eng.truth(args[0]))
            last = not z3.is_false(lv)
        kt = dict_key_at(eng, d, n - 1 if last else z3.IntVal(0))
        key = V(d.ty[1], kt)
        val = V(d.ty[2], z3.Select(mp, kt))
        heapglue.note_entry_read(eng, d, key, val, z3.BoolVal(True))
        nkeys = z3.Extract(keys, 0, n - 1) if last else z3.Extract(keys, 1, n - 1)
        eng.assign(tnode, V(d.ty, T.info(d.ty)['mk'](nkeys, z3.Store(T.dict_has(d), kt, z3.BoolVal(False)), mp)), fr)
        return T.mk_tuple([key, val])
    if attr == 'clear':
        eng.assign(tnode, T.empty_dict(d.ty), fr)
        return VNONE
    if attr == 'copy':
        return d
    raise_unsupported('dict.%s' % attr)


def construct(eng, ci, args, kwargs, fr, node):
    """Calling a class: attrs structs from afkak.common become struct values."""
    from .engine import PyObj
    name = ci.name
    if eng.exc.known(name):
        return make_exc(eng, name, args, kwargs)
    if name in OPAQUE_CLASSES:
        return eng.fresh(ANY, name)
    ca = (eng.contract.extra.get('construct_as') or {}) if eng.contract is not None else {}
    if name in ca:
        # an object of another component, seen through the interface this unit uses: a fresh object of the declared
        # external class (fields unconstrained), recorded in the trace
        from . import heap as H
        ref = H.alloc(eng, ca[name], {})
        H.note_ref(eng, ref)
        eng.trace_event('Construct:' + name, ref, name, [a for a in args if isinstance(a, V)])
        return ref
    if name in T.STRUCTS:
        fields = T.STRUCTS[name]
        vals = {}
        a = list(args)
        for f, t, dflt in fields:
            if a:
                vals[f] = a.pop(0)
            elif f in kwargs:
                vals[f] = kwargs[f]
            elif dflt is not None:
                vals[f] = eng.eval(dflt, None)
            else:
                raise_unsupported('missing field %s constructing %s' % (f, name))
        # None stored where the wire needs a value: Python accepts it (fails later in struct.pack); recorded as a
        # type obligation at the construction site
        for f, t, _ in fields:
            v = vals[f]
            if isinstance(v, V) and v.ty[0] == 'opt' and t[0] != 'opt' and t != ANY and T.coercible(v.ty[1], t):
                if not eng.pure:
                    eng.prove('type.field:%s.%s:not-None' % (name, f), z3.Not(T.is_none(v)), kind='type')
                vals[f] = T.opt_val(v)
        try:
            return T.mk_struct(name, vals)
        except T.TypeMismatch as e:
            if eng.pure:
                raise_unsupported(str(e))
            eng.prove('type.field:%s' % name, z3.BoolVal(False), kind='type', note='constructing %s: %s' % (name, e))
            from .engine import PathEnd
            raise PathEnd()
    return eng.construct_object(ci, args, kwargs, fr, node)


OPAQUE_CLASSES = {'_ReprRequest'}      # log-formatting helpers: no behaviour the contracts depend on


def make_exc(eng, name, args, kwargs):
    ty = ('exc', eng.exc.canon(name))
    return V(ty, T.exc_sort().constructor(0)(z3.IntVal(eng.exc.tag(name)), eng.fresh(INT, 'excid').t))


def listcomp(eng, node, fr):
    """[e for x in xs if c]: modelled as a list whose length is bounded by the source's (equal without a filter); the
    elements are left unconstrained (a sound weakening: nothing can be proved from them that is not true)"""
    from .engine import PyObj
    if len(node.generators) != 1:
        raise_unsupported('nested comprehension')
    g = node.generators[0]
    src = eng.eval(g.iter, fr)
    if isinstance(src, PyObj) and src.kind == 'dictview':
        d = src.payload[0]
        n = z3.Length(T.dict_keys(d)) if d.ty[1] != ANY else z3.IntVal(0)
    elif isinstance(src, V) and src.ty[0] in ('list', 'bytes'):
        n = z3.IntVal(0) if (src.ty[0] == 'list' and src.ty[1] == ANY) else z3.Length(src.t)
    elif isinstance(src, V) and src.ty[0] == 'tuple':
        n = z3.IntVal(len(src.ty[1]))
    else:
        raise_unsupported('comprehension over %r' % (getattr(src, 'ty', src),))
    c = eng.contract_for_frame(fr)
    ety = (c.extra.get('comprehensions', {}) if c is not None else {}).get(getattr(node, 'lineno', 0))
    r = eng.fresh(('list', T.parse_ty(ety) if ety else ANY_ELEM), 'comp')
    if g.ifs:
        eng.assume(z3.And(z3.Length(r.t) >= 0, z3.Length(r.t) <= n))
    else:
        eng.assume(z3.Length(r.t) == n)
    return r


ANY_ELEM = ('any',)


def _ibenv(eng):
    return eng.st.__dict__.setdefault('ib', {'vars': {}, 'memo': {}})


def note_bounds(eng, cond):
    """an assumed fact `c <= v`, `v < c`, ... about an integer constant v narrows its interval for the rest of the path
    (path conditions only grow, so a simplification justified now stays justified for every later obligation)"""
    env = _ibenv(eng)
    stack = [cond]
    while stack:
        c = stack.pop()
        if z3.is_and(c):
            stack.extend(c.children())
            continue
        if not z3.is_app(c) or c.num_args() != 2:
            continue
        k = c.decl().kind()
        l, r = c.arg(0), c.arg(1)
        if k not in (z3.Z3_OP_LE, z3.Z3_OP_LT, z3.Z3_OP_GE, z3.Z3_OP_GT) or l.sort() != z3.IntSort():
            continue
        if k in (z3.Z3_OP_GE, z3.Z3_OP_GT):      # l >= r  ==  r <= l
            l, r = r, l
            k = z3.Z3_OP_LE if k == z3.Z3_OP_GE else z3.Z3_OP_LT
        strict = 1 if k == z3.Z3_OP_LT else 0
        if z3.is_int_value(l) and z3.is_const(r) and r.decl().kind() == z3.Z3_OP_UNINTERPRETED:
            lo, hi = env['vars'].get(r.get_id(), (r, None, None))[1:]
            v = l.as_long() + strict
            env['vars'][r.get_id()] = (r, v if lo is None else max(lo, v), hi)
            env['memo'].clear()
        elif z3.is_int_value(r) and z3.is_const(l) and l.decl().kind() == z3.Z3_OP_UNINTERPRETED:
            lo, hi = env['vars'].get(l.get_id(), (l, None, None))[1:]
            v = r.as_long() - strict
            env['vars'][l.get_id()] = (l, lo, v if hi is None else min(hi, v))
            env['memo'].clear()


def ibounds(eng, t):
    """sound syntactic interval of an Int term on the current path: (lo, hi) or None.  Only used to drop a `% c` that
    cannot change its argument, so that the redundant masks of 32-bit emulation code normalise away before the solver
    sees them."""
    memo = _ibenv(eng)['memo']
    i = t.get_id()
    if i in memo and memo[i][0].eq(t):
        return memo[i][1]
    r = _ibounds(eng, t)
    memo[i] = (t, r)
    return r


def _ibounds(eng, t):
    if z3.is_int_value(t):
        v = t.as_long()
        return (v, v)
    if not z3.is_app(t):
        return None
    k = t.decl().kind()
    ch = t.children()
    if k == z3.Z3_OP_UNINTERPRETED and not ch:
        e = _ibenv(eng)['vars'].get(t.get_id())
        if e is not None and e[0].eq(t) and e[1] is not None and e[2] is not None:
            return (e[1], e[2])
        return None
    if k == z3.Z3_OP_BV2INT:
        return (0, 2 ** ch[0].size() - 1)
    bs = [ibounds(eng, c) for c in ch] if k in (z3.Z3_OP_ADD, z3.Z3_OP_MUL, z3.Z3_OP_MOD, z3.Z3_OP_IDIV) else None
    if k == z3.Z3_OP_ADD:
        if any(b is None for b in bs):
            return None
        return (sum(b[0] for b in bs), sum(b[1] for b in bs))
    if k == z3.Z3_OP_MUL:
        if any(b is None or b[0] < 0 for b in bs):
            return None
        lo = hi = 1
        for b in bs:
            lo, hi = lo * b[0], hi * b[1]
        return (lo, hi)
    if k == z3.Z3_OP_MOD:
        if bs[1] is not None and bs[1][0] == bs[1][1] and bs[1][0] > 0:
            c = bs[1][0]
            if bs[0] is not None and 0 <= bs[0][0] and bs[0][1] < c:
                return bs[0]
            return (0, c - 1)
        return None
    if k == z3.Z3_OP_IDIV:
        if bs[1] is not None and bs[1][0] == bs[1][1] and bs[1][0] > 0 and bs[0] is not None and bs[0][0] >= 0:
            c = bs[1][0]
            return (bs[0][0] // c, bs[0][1] // c)
        return None
    if k == z3.Z3_OP_ITE:
        a, b = ibounds(eng, ch[1]), ibounds(eng, ch[2])
        if a is None or b is None:
            return None
        return (min(a[0], b[0]), max(a[1], b[1]))
    if k == z3.Z3_OP_UNINTERPRETED and t.decl().name() == 'pyxor':
        a, b = ibounds(eng, ch[0]), ibounds(eng, ch[1])
        if a is None or b is None or a[0] < 0 or b[0] < 0:
            return None
        return (0, 2 ** max(a[1].bit_length(), b[1].bit_length()) - 1)     # xor of non-negative ints sets no higher bit
    return None


def smod(eng, xt, c):
    """xt % c for a constant c > 0, dropping the operation when the interval of xt shows it is the identity"""
    b = ibounds(eng, xt)
    if b is not None and 0 <= b[0] and b[1] < c:
        return xt
    return xt % c


def bitop(eng, op, a, b):
    """Bitwise ops on mathematical ints: only masks of the form 2^k-1 and shifts by constants."""
    x, y = eng.num(a), eng.num(b)
    yv = z3.simplify(y.t)
    xv = z3.simplify(x.t)
    if isinstance(op, ast.BitAnd):
        for p, q in ((x, yv), (y, xv)):
            if z3.is_int_value(q):
                m = q.as_long()
                if m >= 0 and (m + 1) & m == 0:
                    return V(INT, smod(eng, p.t, m + 1))
                if m < 0 and (-m) & (-m - 1) == 0:
                    return V(INT, p.t - p.t % (-m))          # x & -(2^k): clear the k low bits (any sign of x)
    if isinstance(op, ast.LShift) and z3.is_int_value(yv) and yv.as_long() >= 0:
        return V(INT, x.t * (2 ** yv.as_long()))
    if isinstance(op, ast.RShift) and z3.is_int_value(yv) and yv.as_long() >= 0:
        return V(INT, x.t / (2 ** yv.as_long()))
    if isinstance(op, ast.BitXor) and x.ty == INT and y.ty == INT:
        # xor of mathematical ints: uninterpreted, with the facts the proofs use instantiated per application
        # (trusted rule; cross-checked natively in the thorough tier through the spec functions that use ^)
        from .engine import UF
        f = UF('pyxor', z3.IntSort(), z3.IntSort(), z3.IntSort())
        r = f(x.t, y.t)
        bx, by = ibounds(eng, x.t), ibounds(eng, y.t)
        if bx is not None and by is not None and bx[0] >= 0 and by[0] >= 0:
            eng.axiom(z3.And(r >= 0, r <= ibounds(eng, r)[1]))
        else:
            # xor of non-negative ints is non-negative and sets no bit above the operands' highest
            eng.axiom(z3.Implies(z3.And(x.t >= 0, y.t >= 0), r >= 0))
            eng.axiom(z3.Implies(z3.And(x.t >= 0, y.t >= 0, x.t < 2 ** 32, y.t < 2 ** 32), r < 2 ** 32))
        return V(INT, r)
    if eng.bvmode is not None:
        return eng.bvmode.bitop(eng, op, x, y)
    raise_unsupported('bitwise %s on symbolic ints' % type(op).__name__)


def call_fn_value(eng, f, args, kwargs, fr, node):
    raise_unsupported('call of a function-typed value')


def effects_of_call(eng, c, fr_c):
    pass


def on_yield(eng, item, fr):
    pass


def icb_yield(eng, node, fr):
    """`v = yield d` in an @inlineCallbacks generator: suspension until d fires.  While suspended anything may run
    (object invariant asserted, mutable heap havocked, invariant assumed); on resumption d has fired: with a value
    (unknown) or with a failure, which is raised at the yield."""
    from . import heap as H
    from .twisted_model import is_ref
    from .engine import PyRaise
    v = eng.eval(node.value, fr) if node.value is not None else VNONE
    if isinstance(v, V) and v.ty[0] == 'opt' and v.ty[1] == ('ref', 'Deferred'):
        if eng.branch(T.is_none(v)):
            return VNONE
        v = T.opt_val(v)
    if is_ref(v, 'Deferred'):
        H.note_ref(eng, v)
        H.external_call(eng, 'yield (suspension)')
        eng.assume(H.heap_read(eng, v, 'called').t)
        if eng.branch(H.heap_read(eng, v, 'failed').t):
            raise PyRaise('Exception', msg='failure delivered at yield', unknown=True)
        return eng.fresh(ANY, 'yielded_value')
    return v


def heap_read(eng, ref, field):
    from . import heapglue
    return heapglue.heap_read(eng, ref, field)


def heap_write(eng, ref, field, v):
    from . import heapglue
    return heapglue.heap_write(eng, ref, field, v)


def havoc_heap_for_loop(eng, s, fr, spec):
    from . import heapglue
    return heapglue.havoc_heap_for_loop(eng, s, fr, spec)


def construct_object(eng, ci, args, kwargs, fr, node):
    from . import heapglue
    return heapglue.construct_object(eng, ci, args, kwargs, fr, node)


def old_expr(eng, arg, fr):
    from . import heapglue
    return heapglue.old_expr(eng, arg, fr)


def unit_entry(eng, fi, c, fr):
    from . import heapglue
    return heapglue.unit_entry(eng, fi, c, fr)


def unit_exit(eng, fi, c, fr, outcome):
    from . import heapglue
    return heapglue.unit_exit(eng, fi, c, fr, outcome)


def apply_entry_point(eng, fi, c, what):
    """an entry point of one of our objects runs here (synchronously): it may assume the object invariant (minus the
    clauses it declares exempt at entry), it re-establishes the whole invariant, and it may change any mutable field"""
    from . import heap as H
    n = eng.callcount.get('ep', 0) + 1
    eng.callcount['ep'] = n
    exempt = set(c.extra.get('inv_exempt_at_entry', []))
    objs = list(eng.st.ghost.get('inv_objects', {}).values())
    for ref in objs:
        H.assert_invariant(eng, ref, 'at-entry-of#%d(%s)' % (n, c.qualname.split('.')[-1]), exempt=exempt)
    old = H.havoc(eng, what)
    for ref in objs:
        H.assume_invariant(eng, ref)
        H.assume_rely(eng, ref, old)


def apply_method_contract(eng, fi, c, args, kwargs, node):
    """modular call of a method under contract: requires now, havoc, ensures (two-state)"""
    from . import heap as H
    from .engine import Frame, PyRaise
    fr_c = Frame(fi)
    bound = eng.bind_args(c.params, args, dict(kwargs), defaults_frame=fr_c)
    fr_c.vars.update(bound)
    fr_c.vars.update({'p_' + k_: v_ for k_, v_ in bound.items()})
    nm = fi.qualname.split('afkak.')[-1]
    eng.callcount[nm] = eng.callcount.get(nm, 0) + 1
    siteid = '%s#%d' % (nm, eng.callcount[nm])
    checkpoint(eng, 'call:%s#%d' % (fi.node.name, eng.callcount[nm]))
    for i, r in enumerate(c.requires):
        eng.prove('pre@%s.%d' % (siteid, i + 1), eng.pure_bool(r, fr_c), kind='pre')
    if not c.extra.get('no_invariant_at_entry'):
        # the callee's own verification ASSUMES the object invariant at its entry (minus the clauses it declares exempt):
        # the caller owes it here - an invariant broken before the call would otherwise be silently "repaired" by the
        # assumption made after the call
        for ref in eng.st.ghost.get('inv_objects', {}).values():
            H.assert_invariant(eng, ref, 'at-call-of#%d(%s)' % (eng.callcount[nm], fi.node.name),
                               exempt=set(c.extra.get('inv_exempt_at_entry', [])))
    # an @inlineCallbacks function never raises at the call: an exception in its body becomes a failed Deferred
    craises = {} if fi.is_inline_callbacks else c.raises
    outcomes = [('ok', None)] + [(k_, eng.pure_bool(v_[4:] if v_.startswith('iff:') else v_, fr_c)) for k_, v_ in craises.items()]
    conds = [z3.BoolVal(True)] + [o[1] for o in outcomes[1:]]
    idx = eng.choose(conds) if len(conds) > 1 else 0
    old = H.havoc(eng, 'call of ' + nm, only=c.extra.get('modifies'))
    eng.st.ghost['old_heap_stack'] = eng.st.ghost.get('old_heap_stack', []) + [old]
    try:
        if idx > 0:
            # exceptional exits of an entry point are checked against the invariant and the guarantees as well
            if c.extra.get('establishes_invariant', True):
                for ref in eng.st.ghost.get('inv_objects', {}).values():
                    H.assume_invariant(eng, ref)
                    if not c.extra.get('no_guarantee'):
                        H.assume_rely(eng, ref, old)
            raise PyRaise(outcomes[idx][0].split('[')[0], msg='raised by %s' % nm)
        res = eng.fresh(c.ret_ty, 'r_' + nm.split('.')[-1]) if c.ret_ty != NONE else VNONE
        fr_c.ghost['result'] = res
        # what a caller may assume: the clauses proved on the callee's own unit, plus `assumed_ensures` (facts about ghost
        # state such as promise ranks that are justified in the contract's notes, listed among the assumptions)
        ens = dict(c.ensures)
        ens.update(c.extra.get('assumed_ensures', {}))
        for name, e in ens.items():
            if any(k_ in e for k_ in ('n_events(', 'event_arg(', 'event_ref(', 'n_calls(', 'n_added(', 'events(', 'added_index(')):
                continue          # clauses about the callee's own activation trace say nothing in the caller's trace
            eng.assume(eng.pure_bool(e, fr_c))
    finally:
        eng.st.ghost['old_heap_stack'] = eng.st.ghost['old_heap_stack'][:-1]
    if c.extra.get('establishes_invariant', True):
        for ref in eng.st.ghost.get('inv_objects', {}).values():
            H.assume_invariant(eng, ref)
    if not c.extra.get('no_guarantee'):
        # the callee is an entry point of the same class: it guarantees the class's rely clauses
        for ref in eng.st.ghost.get('inv_objects', {}).values():
            H.assume_rely(eng, ref, old)
    return res


def checkpoint(eng, key):
    """clauses the unit's contract attaches to a program point (anchored structurally: call:<name>#<ordinal>)"""
    c = eng.contract
    cps = c.extra.get('checkpoints', {}) if c is not None else {}
    if key not in cps:
        return
    eng.stats.setdefault('checkpoints_hit', set()).add(key)
    from .engine import Frame
    fr = getattr(eng, 'cur_frame', None)
    for name, e in cps[key].items():
        eng.prove('at.%s:%s' % (key, name.split('[')[0]), eng.pure_bool(e, unit_entry_names(eng, fr)), kind='post',
                  props=c.clause_props(name), assume_after=False)


def unit_entry_names(eng, fr):
    """frame in which the unit's parameters denote their entry values but `self` fields are read from the current heap"""
    from .engine import Frame
    f = Frame(fr.func if fr is not None else None, fr)
    params = set()
    if eng.unit_func is not None:
        params = {a.arg for a in eng.unit_func.node.args.args}
    top = fr
    while top is not None:
        for k_, v_ in top.ghost.items():
            if k_.startswith('old_') and k_[4:] in params:
                f.vars.setdefault(k_[4:], v_)
                f.vars.setdefault('p_' + k_[4:], v_)
        top = top.parent
    f.ghost = dict(fr.ghost) if fr is not None else {}
    return f
