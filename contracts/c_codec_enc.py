"""Contracts for the request encoders of afkak/kafkacodec.py (C04): emitted bytes == independent grammar encoding."""
from pyvc.contracts import contract

K = "afkak.kafkacodec.KafkaCodec."
HDR_REQ = ["-32768 <= request_key and request_key <= 32767", "-2147483648 <= correlation_id and correlation_id <= 2147483647",
           "len(client_id) <= 32767"]
CID = ["-2147483648 <= correlation_id and correlation_id <= 2147483647", "len(client_id) <= 32767"]


@contract(K + "_encode_message_header")
class _:
    sig = "(client_id: bytes, correlation_id: int, request_key: int, api_version: int = 0) -> bytes"
    props = ["C04"]
    requires = HDR_REQ + ["-32768 <= api_version and api_version <= 32767"]
    ensures = {"func[C04]": "result == req_header(request_key, api_version, correlation_id, client_id)"}


@contract(K + "_encode_message")
class _:
    sig = "(message: Message) -> bytes"
    props = ["C04"]
    requires = ["0 <= message.attributes and message.attributes <= 255",
                "message.key is None or len(message.key) < 2147483648", "message.value is None or len(message.value) < 2147483648",
                "message.magic != 1 or message.timestamp is None or (-9223372036854775808 <= message.timestamp and message.timestamp <= 9223372036854775807)"]
    ensures = {"v0[C04]": "implies(message.magic == 0, result == enc_msg0(message.attributes, message.key, message.value))",
               "v1[C04]": "implies(message.magic == 1 and message.timestamp is not None, "
                          "result == enc_msg1(message.attributes, message.key, message.value, message.timestamp))",
               "v1-now[C04]": "implies(message.magic == 1 and message.timestamp is None, "
                              "result == enc_msg1(message.attributes, message.key, message.value, int(time_read(0) * 1000)))"}
    ensures["size[C04]"] = "len(result) <= 26 + ite(message.key is None, 0, len(message.key)) + ite(message.value is None, 0, len(message.value))"
    raises = {"ProtocolError": "iff:message.magic != 0 and message.magic != 1"}


@contract(K + "_encode_message_set")
class _:
    sig = "(messages: List[Message], offset: Optional[int] = None, magic: int = 0) -> bytes"
    props = ["C04"]
    requires = ["forall_items(messages, msg_encodable)", "len(messages) < 100000000",
                "offset is None or (0 <= offset and offset + len(messages) < 9223372036854775807)", "magic == 0 or magic == 1"]
    ensures = {"func[C04]": "result == enc_msgset_prefix(messages, ite(offset is None, 0, offset), ite(offset is None, 0, 1), len(messages))"}
    loops = {"for#1": dict(index="i", inv=[
        "join_bytes(message_set) == enc_msgset_prefix(messages, ite(old(offset) is None, 0, old(offset)), incr, i)",
        "offset == ite(old(offset) is None, 0, old(offset) + i)",
        "incr == ite(old(offset) is None, 0, 1)"])}


def simple(name, sig, requires, ensures, raises=None, loops=None):
    d = dict(sig=sig, props=["C04"], requires=requires, ensures={"func[C04]": ensures})
    if raises:
        d['raises'] = raises
    if loops:
        d['loops'] = loops
    contract(K + name)(type('_', (), d))


STR_ASCII = "({0} is None or (is_ascii_s({0}) and len(enc_ascii({0})) <= 32767))"
STR_UTF8 = "({0} is None or len(enc_utf8({0})) <= 32767)"
I32 = "(-2147483648 <= {0} and {0} <= 2147483647)"

simple("encode_consumermetadata_request", "(client_id: bytes, correlation_id: int, consumer_group: Optional[str]) -> bytes",
       CID + [STR_ASCII.format("consumer_group")],
       "result == req_header(10, 0, correlation_id, client_id) + enc_str16_ascii(consumer_group)")

simple("encode_leave_group_request", "(client_id: bytes, correlation_id: int, payload: _LeaveGroupRequest) -> bytes",
       CID + [STR_UTF8.format("payload.group"), STR_UTF8.format("payload.member_id")],
       "result == req_header(13, 0, correlation_id, client_id) + enc_str16_utf8(payload.group) + enc_str16_utf8(payload.member_id)")

simple("encode_heartbeat_request", "(client_id: bytes, correlation_id: int, payload: _HeartbeatRequest) -> bytes",
       CID + [STR_UTF8.format("payload.group"), STR_UTF8.format("payload.member_id"), I32.format("payload.generation_id")],
       "result == req_header(12, 0, correlation_id, client_id) + enc_str16_utf8(payload.group) + p_i32(payload.generation_id) "
       "+ enc_str16_utf8(payload.member_id)")

simple("encode_api_versions_request", "(client_id: bytes, correlation_id: int, api_version_request: ApiVersionRequest) -> bytes",
       CID + ["-32768 <= api_version_request.api_key and api_version_request.api_key <= 32767",
              "-32768 <= api_version_request.api_version and api_version_request.api_version <= 32767"],
       "result == req_header(api_version_request.api_key, api_version_request.api_version, correlation_id, client_id)")
