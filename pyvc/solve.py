"""Discharging obligations: z3 (python API) first, /usr/bin/cvc5 on unknown.  unknown/timeout is never a violation."""
import os
import subprocess
import tempfile
import time
import z3

from . import ty as T

CVC5 = '/usr/bin/cvc5'


def collect_rec_apps(exprs, rec_names, seen=None):
    """all application terms of @rec spec functions in the given expressions"""
    if seen is None:
        seen = set()
    out = []
    stack = list(exprs)
    while stack:
        e = stack.pop()
        i = e.get_id()
        if i in seen:
            continue
        seen.add(i)
        if z3.is_app(e):
            if e.decl().name() in rec_names and e.decl().kind() == z3.Z3_OP_UNINTERPRETED and e.num_args() > 0:
                out.append(e)
            stack.extend(e.children())
        elif z3.is_quantifier(e):
            stack.append(e.body())
    return out


def instantiate(eng, exprs, max_rounds=3, seen=None, done=None):
    """fuel-style unfolding: defining equations for the rec-apps in exprs (and, for `fuel` rounds, in the
    instances themselves).  Every instance is a true fact about the spec function, so adding it is sound."""
    from .engine import State
    if done is None:
        done = set()
    axioms = []
    frontier = list(exprs)
    saved = eng.st
    tmp = State([])
    eng.st = tmp
    try:
        for rnd in range(max_rounds):
            apps = collect_rec_apps(frontier, set(eng.rec_apps), seen)
            new = []
            for a in apps:
                if a.get_id() in done:
                    continue
                fn = eng.rec_apps[a.decl().name()]
                if rnd >= fn.fuel + 1:
                    continue
                done.add(a.get_id())
                eq = eng.specs.unfold(eng, fn, a)
                new.append(eq)
            if not new:
                break
            axioms.extend(new)
            frontier = new + tmp.axioms
        axioms.extend(tmp.axioms)
    finally:
        eng.st = saved
    return axioms


def concrete_struct_axioms(exprs):
    """Counterexample mode: give every u_*(d, p) / p_*(x) application occurring in the query its concrete big-endian
    two's-complement meaning over the bytes of d.  True facts about struct, so adding them is sound; they turn an
    abstract candidate counter-model into one whose bytes really decode to the values the model uses (or show the
    candidate was an artefact of the abstraction: unsat)."""
    from .engine import CODE_BY_NAME
    seen = set()
    out = []
    stack = list(exprs)
    while stack:
        e = stack.pop()
        i = e.get_id()
        if i in seen:
            continue
        seen.add(i)
        if z3.is_app(e):
            nm = e.decl().name()
            if e.decl().kind() == z3.Z3_OP_UNINTERPRETED and e.num_args() > 0 and nm[:2] in ('u_', 'p_') and nm[2:] in CODE_BY_NAME:
                ch, size, lo, hi = CODE_BY_NAME[nm[2:]]
                signed = lo < 0
                if nm[0] == 'u':
                    d, p = e.arg(0), e.arg(1)
                    bv = d[p] if size == 1 else z3.Concat(*[d[p + k] for k in range(size)])
                    out.append(z3.Implies(z3.And(p >= 0, p + size <= z3.Length(d)), e == z3.BV2Int(bv, signed)))
                else:
                    x = e.arg(0)
                    bv = z3.Int2BV(x, 8 * size)
                    units = [z3.Unit(z3.Extract(8 * (size - k) - 1, 8 * (size - k - 1), bv)) for k in range(size)]
                    out.append(z3.Implies(z3.And(x >= lo, x <= hi), e == (units[0] if size == 1 else z3.Concat(*units))))
            stack.extend(e.children())
        elif z3.is_quantifier(e):
            stack.append(e.body())
    return out


def build_query(eng, o):
    """formula whose unsatisfiability discharges obligation o (or whose satisfiability confirms a cover)"""
    goal = z3.BoolVal(True) if o.expect_sat and o.kind == 'cover' else z3.Not(o.cond)
    base = list(o.axioms) + list(o.pc) + [goal]
    extra = instantiate(eng, base)
    return base + extra + T.str_lit_axioms()


def check_z3(fs, timeout_ms, variant=0):
    s = z3.Solver()
    s.set('timeout', timeout_ms)
    if variant:
        # second configuration for the retry: other random seed and the older simplex core (verdicts of a decision
        # procedure do not depend on these; only whether it finishes within the budget does)
        s.set('random_seed', 7 * variant)
        s.set('arith.solver', 2)
    for f in fs:
        s.add(f)
    t0 = time.time()
    try:
        r = s.check()
    except z3.Z3Exception as e:
        # e.g. "reached max unfolding" from the sequence solver: no verdict from this back end
        return 'unknown', None, time.time() - t0, 'z3 gave up: %s' % str(e)[:80], s
    dt = time.time() - t0
    model = None
    reason = ''
    if r == z3.sat:
        model = s.model()
        # z3's sequence solver occasionally answers sat with a model that does not satisfy the assertions
        # (seen on concat/ite equalities; cvc5 proves the same query unsat).  A sat is only believed when the model
        # checks out; otherwise the answer is downgraded to unknown and the second back end decides.
        try:
            for f in fs:
                if z3.is_false(model.eval(f, model_completion=True)):
                    return 'unknown', None, time.time() - t0, 'z3 model does not satisfy the query (invalid sat)', s
        except z3.Z3Exception:
            pass
    elif r == z3.unknown:
        reason = s.reason_unknown()
    return str(r), model, dt, reason, s


def check_cvc5(solver, timeout_s):
    """same query as SMT-LIB2 text to the cvc5 CLI"""
    txt = solver.to_smt2()
    # z3's simplifier spells in-range / out-of-range element access seq.nth_i / seq.nth_u; both are seq.nth
    txt = '(set-logic ALL)\n' + txt.replace('seq.nth_i', 'seq.nth').replace('seq.nth_u', 'seq.nth')
    with tempfile.NamedTemporaryFile('w', suffix='.smt2', delete=False, dir=os.environ.get('PYVC_TMP', None)) as f:
        f.write(txt)
        path = f.name
    t0 = time.time()
    try:
        p = subprocess.run([CVC5, '--strings-exp', '--tlimit=%d' % int(timeout_s * 1000), path],
                           capture_output=True, text=True, timeout=timeout_s + 5)
        out = (p.stdout or '').strip().splitlines()
        r = out[0].strip() if out else 'unknown'
        if r not in ('sat', 'unsat', 'unknown'):
            r = 'unknown'
    except subprocess.TimeoutExpired:
        r = 'unknown'
    finally:
        try:
            os.unlink(path)
        except OSError:
            pass
    return r, time.time() - t0


def discharge(eng, o, timeout_ms=10000, use_cvc5=True, cross_check=False):
    """-> dict(verdict, backend, time_s, model)"""
    fs = build_query(eng, o)
    # a quarter of the budget first, then another configuration, then the full budget: an unstable query costs less
    # and is decided more often than with one long attempt
    r, model, dt, reason, solver = check_z3(fs, max(1000, timeout_ms // 4))
    if r == 'unknown' and 'invalid sat' not in reason:
        r, model, dt1, reason, solver = check_z3(fs, max(1000, timeout_ms // 4), variant=1)
        dt += dt1
        if r == 'unknown' and 'invalid sat' not in reason:
            r, model, dt1, reason, solver = check_z3(fs, timeout_ms)
            dt += dt1
    res = dict(z3=r, time_s=dt, backend='z3', model=model, reason=reason)
    if r == 'unknown' and use_cvc5:
        r2, dt2 = check_cvc5(solver, timeout_ms / 1000.0)
        res['cvc5'] = r2
        res['time_s'] += dt2
        if r2 != 'unknown':
            r = r2
            res['backend'] = 'cvc5'
    elif cross_check and r in ('sat', 'unsat'):
        r2, dt2 = check_cvc5(solver, timeout_ms / 1000.0)
        res['cvc5'] = r2
        res['cvc5_time_s'] = dt2
        if r2 != 'unknown' and r2 != r:
            res['disagreement'] = True
    if r == 'sat' and not o.expect_sat:
        # counterexample mode (replay ladder rung 2): same query + concrete struct semantics
        extra = concrete_struct_axioms(fs)
        if extra:
            r3, model3, dt3, reason3, _ = check_z3(fs + extra, timeout_ms)
            res['concrete'] = r3
            res['time_s'] += dt3
            if r3 == 'unsat':
                r = 'unsat'
                res['backend'] = 'z3+concrete-struct'
                res['model'] = None
            elif r3 == 'sat':
                res['model'] = model3
    res['raw'] = r
    if o.expect_sat:
        res['verdict'] = {'sat': 'ok', 'unsat': 'vacuous', 'unknown': 'undecided'}[r]
    else:
        res['verdict'] = {'unsat': 'proved', 'sat': 'refuted', 'unknown': 'undecided'}[r]
    return res


class Incremental:
    """Obligations of one path share their path condition as a growing prefix: keep one solver per path, push the common
    prefix once, and check each goal inside push/pop.  Anything the incremental solver does not decide (unknown) or
    answers `sat` is re-checked from scratch by `discharge` (fresh solver, model validation, counterexample mode, cvc5),
    so only `unsat` answers are taken from the incremental solver."""

    def __init__(self, eng, timeout_ms):
        self.eng = eng
        self.timeout_ms = timeout_ms
        self.path = None
        self.solver = None
        self.npc = 0
        self.nax = 0
        self.pc_ids = []
        self.ax_ids = []

    def _reset(self, o):
        self.solver = z3.Solver()
        self.solver.set("timeout", min(self.timeout_ms, 1500))
        for f in T.str_lit_axioms():
            self.solver.add(f)
        self.path = o.path
        self.pc_ids = []
        self.ax_ids = []
        self.seen = set()
        self.done = set()
        self.pending = []

    def _check(self, goal):
        self.solver.push()
        self.solver.add(goal)
        try:
            r = self.solver.check()
        except z3.Z3Exception:
            r = z3.unknown          # e.g. "reached max unfolding": the from-scratch path decides
        self.solver.pop()
        return r

    def discharge(self, o):
        if o.expect_sat:
            return discharge(self.eng, o, timeout_ms=self.timeout_ms)
        pc_ids = [c.get_id() for c in o.pc]
        ax_ids = [c.get_id() for c in o.axioms]
        if self.solver is None or self.path != o.path or pc_ids[:len(self.pc_ids)] != self.pc_ids \
                or ax_ids[:len(self.ax_ids)] != self.ax_ids:
            self._reset(o)
        for c in o.pc[len(self.pc_ids):]:
            self.solver.add(c)
        for c in o.axioms[len(self.ax_ids):]:
            self.solver.add(c)
        new = list(o.pc[len(self.pc_ids):]) + list(o.axioms[len(self.ax_ids):])
        self.pc_ids, self.ax_ids = pc_ids, ax_ids
        t0 = time.time()
        goal = z3.Not(o.cond)
        # first without new unfoldings of recursive spec functions (fewer facts: `unsat` is still a proof) ...
        self.pending.extend(new)
        r = self._check(goal)
        if r != z3.unsat:
            # ... then with the unfoldings for everything in the query (facts: they stay asserted)
            for ax in instantiate(self.eng, self.pending + [goal], seen=self.seen, done=self.done):
                self.solver.add(ax)
            self.pending = []
            r = self._check(goal)
        dt = time.time() - t0
        if r == z3.unsat:
            return dict(z3='unsat', time_s=dt, backend='z3', model=None, reason='', raw='unsat', verdict='proved')
        res = discharge(self.eng, o, timeout_ms=self.timeout_ms)
        res['time_s'] += dt
        return res
