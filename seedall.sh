#!/bin/sh
# usage: ./seedall.sh   every seeded change against the check of its own property (quick tier); /repo is restored after each
cd /verif
for d in seeded/C*; do
  id=$(basename $d)
  ./seedtest.sh $id
done
