#!/usr/bin/env python3-vt
"""Development tool (not a registered check): mutation test of the CONTRACTS.

For every function under a verified contract, small syntactic changes of the function's body are written to a scratch copy
of /repo/afkak and the function's unit is re-verified there (deductive part only).  A mutant is KILLED when some obligation
is no longer discharged (refuted, undecided, engine error, vacuity guard); it SURVIVES when every obligation is still
discharged.  Survivors are either equivalent mutants (logging, dead code, behaviour no property speaks about) or clauses the
contract is missing; they are listed for triage.  Nothing here touches /repo.

usage: python3-vt mutate.py [--jobs N] [--max-unit-seconds S] [--only SUBSTR] [--out FILE]
"""
import ast
import copy
import json
import multiprocessing as mp
import os
import shutil
import sys
import time

VERIF = os.path.dirname(os.path.abspath(__file__))
sys.path.insert(0, VERIF)
SRC = os.environ.get('AFKAK_REPO', '/repo')
SCRATCH_ROOT = '/tmp/mutx'
MUTANT_SECONDS = 90

CMP_SWAP = {ast.Lt: ast.LtE, ast.LtE: ast.Lt, ast.Gt: ast.GtE, ast.GtE: ast.Gt, ast.Eq: ast.NotEq, ast.NotEq: ast.Eq,
            ast.Is: ast.IsNot, ast.IsNot: ast.Is, ast.In: ast.NotIn, ast.NotIn: ast.In}


def is_logging(node):
    if isinstance(node, ast.Expr):
        node = node.value
    if isinstance(node, ast.Call) and isinstance(node.func, ast.Attribute) and isinstance(node.func.value, ast.Name):
        return node.func.value.id in ('log', 'logging') or node.func.attr in ('debug', 'info', 'warning', 'error', 'exception')
    return False


def sites(func, skip_nested):
    """mutation sites inside `func`: (kind, node path, description).  Nested defs in skip_nested (they have their own unit) are left alone"""
    out = []

    def walk(node, path):
        for field, value in ast.iter_fields(node):
            if isinstance(value, list):
                for i, item in enumerate(value):
                    if isinstance(item, ast.AST):
                        visit(item, path + [(field, i)])
            elif isinstance(value, ast.AST):
                visit(value, path + [(field, None)])

    def visit(node, path):
        if isinstance(node, (ast.FunctionDef, ast.AsyncFunctionDef)) and node is not func and node.name in skip_nested:
            return
        if is_logging(node):
            return
        if isinstance(node, ast.Expr) and isinstance(node.value, ast.Constant):
            return          # docstring
        if isinstance(node, ast.Compare) and len(node.ops) == 1 and type(node.ops[0]) in CMP_SWAP:
            out.append(('cmp', path, 'line %d: comparison %s -> %s' % (node.lineno, type(node.ops[0]).__name__, CMP_SWAP[type(node.ops[0])].__name__)))
        if isinstance(node, (ast.If, ast.While)) and not (isinstance(node.test, ast.Constant)):
            out.append(('neg', path, 'line %d: condition of %s negated' % (node.lineno, type(node).__name__.lower())))
        if isinstance(node, ast.BoolOp):
            out.append(('bool', path, 'line %d: and <-> or' % node.lineno))
        if isinstance(node, ast.Constant) and isinstance(node.value, bool):
            out.append(('const', path, 'line %d: %r -> %r' % (node.lineno, node.value, not node.value)))
        elif isinstance(node, ast.Constant) and isinstance(node.value, int) and abs(node.value) <= 64:
            out.append(('const', path, 'line %d: %r -> %r' % (node.lineno, node.value, node.value + 1)))
        if isinstance(node, ast.BinOp) and isinstance(node.op, (ast.Add, ast.Sub)):
            out.append(('arith', path, 'line %d: + <-> -' % node.lineno))
        if isinstance(node, (ast.Assign, ast.AugAssign)) or (isinstance(node, ast.Expr) and isinstance(node.value, ast.Call)):
            out.append(('del', path, 'line %d: statement `%s` deleted' % (node.lineno, ast.unparse(node)[:70].replace('\n', ' '))))
        if isinstance(node, ast.Return) and node.value is not None and not (isinstance(node.value, ast.Constant) and node.value.value is None):
            out.append(('ret', path, 'line %d: `%s` -> return None' % (node.lineno, ast.unparse(node)[:60])))
        if isinstance(node, (ast.Continue, ast.Break)):
            out.append(('del', path, 'line %d: %s deleted' % (node.lineno, type(node).__name__.lower())))
        walk(node, path)

    walk(func, [])
    return out


def resolve(func, path):
    node = func
    parent, where = None, None
    for field, i in path:
        parent, where = node, (field, i)
        v = getattr(node, field)
        node = v[i] if i is not None else v
    return parent, where, node


def apply_mutation(func, kind, path):
    parent, (field, i), node = resolve(func, path)

    def put(new):
        if i is None:
            setattr(parent, field, new)
        else:
            getattr(parent, field)[i] = new
    if kind == 'cmp':
        node.ops = [CMP_SWAP[type(node.ops[0])]()]
    elif kind == 'neg':
        node.test = ast.UnaryOp(op=ast.Not(), operand=node.test)
    elif kind == 'bool':
        node.op = ast.Or() if isinstance(node.op, ast.And) else ast.And()
    elif kind == 'const':
        node.value = (not node.value) if isinstance(node.value, bool) else node.value + 1
    elif kind == 'arith':
        node.op = ast.Sub() if isinstance(node.op, ast.Add) else ast.Add()
    elif kind == 'del':
        put(ast.Pass())
    elif kind == 'ret':
        node.value = ast.Constant(value=None)


def find_func(tree, fi_node_lineno, name):
    for n in ast.walk(tree):
        if isinstance(n, (ast.FunctionDef, ast.AsyncFunctionDef)) and n.name == name and n.lineno == fi_node_lineno:
            return n
    return None


_W = {}


def _init_worker():
    pid = os.getpid()
    d = os.path.join(SCRATCH_ROOT, 'w%d' % pid)
    shutil.rmtree(d, ignore_errors=True)
    os.makedirs(d)
    shutil.copytree(os.path.join(SRC, 'afkak'), os.path.join(d, 'afkak'))
    _W['dir'] = d
    from pyvc import frontend
    frontend.REPO = d


def run_units(qns, timeout_ms):
    """-> (ok, reason): every obligation of every unit discharged?"""
    from pyvc import driver, units
    from pyvc.contracts import CONTRACTS
    eng = driver.load_all()
    for qn in qns:
        c = CONTRACTS[qn]
        insts = [None]
        if c.extra.get('instances') == 'relative_unpack-formats':
            insts = [{'fmt': f} for f in units.formats_in_repo(eng.repo)]
        elif c.extra.get('type_instances'):
            insts = [{'@types': dict(t), '@label': l} for l, t in c.extra['type_instances'].items()]
        for inst in insts:
            r = units.run_unit(eng, qn, timeout_ms=timeout_ms, instance=inst)
            if r.error:
                return False, 'engine error: ' + r.error.splitlines()[0][:120]
            if r.undecided:
                return False, 'undecided: ' + r.undecided[:120]
            if r.dead_ends:
                return False, 'vacuity guard'
            for o, res in r.obls:
                if o.expect_sat:
                    if res['verdict'] != 'ok':
                        return False, 'cover %s %s' % (o.name, res['verdict'])
                elif res['verdict'] != 'proved':
                    return False, '%s %s' % (o.name, res['verdict'])
    return True, ''


BOUNDED_TOO = True


def bounded_kill(qns):
    import subprocess
    from pyvc.contracts import CONTRACTS
    from pyvc import report
    props = set()
    for q in qns:
        props |= set(CONTRACTS[q].all_props())
    env = dict(os.environ)
    env['PYTHONPATH'] = _W['dir'] + ':' + VERIF
    env['PYTHONDONTWRITEBYTECODE'] = '1'
    for prop in sorted(props):
        for scen, n, _ in report.SCENARIO_UNITS.get(prop, []):
            job = dict(mode='scenario', scenario=scen, n=n, seed=0, prop=prop)
            try:
                p = subprocess.run(['/venv/bin/python', '-m', 'pyvc.native_replay'], input=json.dumps(job), capture_output=True,
                                   text=True, timeout=600, cwd=VERIF, env=env)
                out = json.loads(p.stdout.strip().splitlines()[-1])
            except Exception as e:
                return '%s/%s: harness failed (%s)' % (prop, scen, type(e).__name__)
            if out.get('harness_error'):
                return '%s/%s: harness error' % (prop, scen)
            if out.get('hit') and out['hit']['run']['failed'][0].startswith(prop + ':'):
                return '%s/%s: %s' % (prop, scen, out['hit']['run']['failed'][0])
    return None


def _time_unit(qn):
    t0 = time.time()
    r = _job(([qn], None, None, 'unchanged'))
    return qn, time.time() - t0, r['verdict'] == 'survived', r.get('reason', '')


def _job(args):
    qns, relpath, text, desc = args
    path = os.path.join(_W['dir'], relpath) if relpath else None
    orig = open(path).read() if path else None
    t0 = time.time()
    try:
        if path:
            open(path, 'w').write(text)
            try:
                compile(text, path, 'exec')
            except SyntaxError as e:
                return dict(units=qns, desc=desc, verdict='invalid', reason=str(e))
        # a fresh interpreter per mutant, killed after MUTANT_SECONDS: a solver call that ignores its own time limit
        # (seen with z3's sequence solver on mutated decoder loops) cannot stall the run
        import subprocess
        try:
            p = subprocess.run([sys.executable, os.path.abspath(__file__), '--child'], input=json.dumps(dict(dir=_W['dir'], units=qns)),
                               capture_output=True, text=True, timeout=MUTANT_SECONDS, cwd=VERIF)
            try:
                out = json.loads(p.stdout.strip().splitlines()[-1])
                ok, reason = out['ok'], out['reason']
            except Exception:
                ok, reason = False, 'checker failure: ' + (p.stderr.strip().splitlines() or ['no output'])[-1][:120]
        except subprocess.TimeoutExpired:
            # path explosion / a query the solver does not give up on: the unit would be undecided (exit 2) - noticed, not accepted
            ok, reason = False, 'undecided: no verdict within %ds' % MUTANT_SECONDS
        res = dict(units=qns, desc=desc, verdict='survived' if ok else 'killed', reason=reason)
        if ok and path and BOUNDED_TOO:
            # second line of defence, as in the registered checks: the bounded stand-ins of the unit's properties
            hit = bounded_kill(qns)
            if hit:
                res.update(verdict='killed-by-bounded', reason=hit)
        res['time_s'] = round(time.time() - t0, 2)
        return res
    finally:
        if path:
            open(path, 'w').write(orig)


def child():
    job = json.loads(sys.stdin.read())
    from pyvc import frontend
    frontend.REPO = job['dir']
    try:
        ok, reason = run_units(job['units'], 5000)
    except Exception as e:
        ok, reason = False, 'checker exception %s: %s' % (type(e).__name__, str(e)[:100])
    print(json.dumps(dict(ok=ok, reason=reason)))


def main():
    argv = sys.argv[1:]
    if '--child' in argv:
        return child()

    def opt(name, default):
        return type(default)(argv[argv.index(name) + 1]) if name in argv else default
    jobs = opt('--jobs', 16)
    max_s = opt('--max-unit-seconds', 8.0)
    only = opt('--only', '')
    outp = opt('--out', os.path.join(VERIF, 'build', 'mutation_report.json'))
    from pyvc import driver, units
    from pyvc.contracts import CONTRACTS
    eng = driver.load_all()
    # group units by the function they verify (variants `name@if1` and type instances share a function)
    by_func = {}
    for qn, inst in driver.jobs_for(eng, None):
        if only and only not in qn:
            continue
        c = CONTRACTS[qn]
        if c.extra.get('class_constants'):
            continue
        by_func.setdefault(qn, None)
    todo = []
    skipped = []
    # the parent process never runs the solver (z3 state does not survive fork()): the clean-tree timing is done by workers too
    shutil.rmtree(SCRATCH_ROOT, ignore_errors=True)
    os.makedirs(SCRATCH_ROOT)
    ctx = mp.get_context('fork')
    pool = ctx.Pool(jobs, initializer=_init_worker)
    for qn, dt, ok, reason in pool.imap_unordered(_time_unit, list(by_func), chunksize=1):
        if not ok:
            skipped.append((qn, 'not clean on the unchanged tree: ' + reason))
        elif dt > max_s:
            skipped.append((qn, 'unit takes %.1fs' % dt))
        else:
            todo.append(qn)
    todo.sort()
    # mutants
    tasks = []
    for qn in todo:
        try:
            fi = eng.repo.func(qn)
        except KeyError:
            fi = None
        if fi is None:
            skipped.append((qn, 'function not located'))
            continue
        path = fi.module.path
        rel = os.path.relpath(path, SRC)
        src = open(path).read()
        tree = ast.parse(src)
        f = find_func(tree, fi.node.lineno, fi.node.name)
        if f is None:
            skipped.append((qn, 'function node not found'))
            continue
        nested_with_contract = {n.name for n in ast.walk(f) if isinstance(n, ast.FunctionDef) and n is not f and
                                any(q.startswith(qn.split('@')[0] + '.<' + n.name + '>') for q in CONTRACTS)}
        for kind, p, desc in sites(f, nested_with_contract):
            t2 = copy.deepcopy(tree)
            f2 = find_func(t2, fi.node.lineno, fi.node.name)
            try:
                apply_mutation(f2, kind, p)
                ast.fix_missing_locations(t2)
                text = ast.unparse(t2)
            except Exception:
                continue
            # units to re-verify: this function's own unit(s) and, for a function that others inline, those callers are NOT re-run
            qns = [q for q in by_func if q.split('@')[0] == qn.split('@')[0]] if '@' in qn else [qn]
            tasks.append((qns, rel, text, '%s: %s' % (qn.split('afkak.')[-1], desc)))
    print('units to mutate: %d, skipped: %d, mutants: %d' % (len(todo), len(skipped), len(tasks)), flush=True)
    t0 = time.time()
    results = []
    for r in pool.imap_unordered(_job, tasks, chunksize=1):
        results.append(r)
        if len(results) % 100 == 0:
            print('  %d/%d mutants done (%.0fs)' % (len(results), len(tasks), time.time() - t0), flush=True)
    pool.close()
    pool.join()
    shutil.rmtree(SCRATCH_ROOT, ignore_errors=True)
    killed = [r for r in results if r['verdict'] == 'killed']
    killed_b = [r for r in results if r['verdict'] == 'killed-by-bounded']
    surv = [r for r in results if r['verdict'] == 'survived']
    print('mutants %d: killed by a deductive obligation %d, by a bounded stand-in only %d, survived %d, invalid %d (%.0fs)'
          % (len(results), len(killed), len(killed_b), len(surv), len(results) - len(killed) - len(killed_b) - len(surv), time.time() - t0))
    for r in killed_b:
        print('BOUNDED-ONLY', r['desc'], '<-', r['reason'])
    os.makedirs(os.path.dirname(outp), exist_ok=True)
    json.dump(dict(skipped=skipped, results=results), open(outp, 'w'), indent=1)
    for r in surv:
        print('SURVIVED', r['desc'])


if __name__ == '__main__':
    main()
