"""Regenerates MANIFEST.json from the table below (kept in one place so it stays valid)."""
import json

CLAIMED = {
    # id: (level text, level note, technique, design_ref)
}
NA_REASON = "check not built yet in this round (see DESIGN.md section 8 for the plan)"


def build():
    from manifest_table import CLAIMED as C, NOT_APPLICABLE as NA
    props = [json.loads(l)['id'] for l in open('properties.jsonl')]
    checks = []
    for p in props:
        if p in C:
            c = C[p]
            checks.append(dict(
                property_id=p, quick_cmd='./check %s --quick' % p, thorough_cmd='./check %s --thorough' % p,
                evidence_file='evidence/%s.json' % p, replay_cmd_template='./check %s --replay {path}' % p,
                engine='pyvc', level_claimed=dict(category=c.get('category', 'proof'), text=c['text'], design_ref=c.get('ref', 'DESIGN.md section 8')),
                level_note=c['note'], technique=c.get('technique', 'contract-based deductive verification: sidecar contracts on the real functions, VCs generated from the AST of /repo, discharged by z3/cvc5; bounded stand-ins (labelled) for units outside the executor')))
    na = [dict(property_id=p, reason=NA.get(p, NA_REASON)) for p in props if p not in C]
    m = dict(version=1, setup_cmd='./setup.sh',
             hooks=dict(guard='AFKAK_VERIF', enable='none needed: contracts are sidecars under /verif/contracts; /repo is read, parsed and executed unmodified (no hook commits)',
                        baseline_off_cmd='cd /repo && /venv/bin/python -m pytest -ra -q -p no:cacheprovider --timeout=900 --continue-on-collection-errors',
                        source_commits=[], add_only=True),
             engines=[dict(name='pyvc', path='pyvc/', serves_properties=sorted(C), kind_free_text='verification-condition generator over the Python ast of /repo/afkak (forward symbolic execution with contracts, loop invariants, fuel-unfolded recursive spec functions) discharging to z3 and cvc5; native replay harness; bounded stand-in search')],
             checks=checks, not_applicable=na,
             notes='exit codes of ./check: 0 held, 1 violation (VIOLATION line), 2 undecided, 3 checker failure. KNOWN_FINDINGS.txt lists fixed defects and accepted findings.')
    json.dump(m, open('MANIFEST.json', 'w'), indent=1)


if __name__ == '__main__':
    build()
