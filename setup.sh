#!/bin/sh
# Offline setup: nothing to build.  Verifies the tooling the checks need is present.
set -e
cd "$(dirname "$0")"
python3-vt -c "import z3; assert z3.get_version_string() >= '4.8'"
test -x /usr/bin/cvc5
test -x /venv/bin/python
python3-vt -c "import sys; sys.path.insert(0,'.'); from specs import grammar; grammar.write('specs/gen_parse.py')"
echo setup ok
