"""Contracts for the response decoders of afkak/kafkacodec.py.  C05: decoded == independent parser spec;
C12: every completed loop iteration strictly advances the cursor (work bounded by the input length)."""
from pyvc.contracts import contract
from . import c_util  # noqa

ALLOWED_DECODE_ERRORS = {
    "BufferUnderflowError": "True", "ProtocolError": "True", "AttributeError": "True", "UnicodeDecodeError": "True",
}


def two_level(qualname, prefix, item, closure_env=None, sig=None, h="4", requires=(), search=None):
    d = dict(
        sig=sig or "(data: bytes) -> List[%s]" % item, requires=list(requires), search=search or {"data": "resp:" + prefix},
        kind="generator", item=item, props=["C05", "C12"],
        ensures={"func[C05]": "result == {p}_items_outer(data, {h}, {p}_topics_cnt(data, {h}))".format(p=prefix, h=h),
                 },
        raises=dict(ALLOWED_DECODE_ERRORS),
        loops={
            "for#1": dict(index="i", decreases="len(data) - cur", inv=[
                "cur == {p}_topics_pos(data, {h}, i)".format(p=prefix, h=h),
                "yielded == {p}_items_outer(data, {h}, i)".format(p=prefix, h=h),
                "num_topics == {p}_topics_cnt(data, {h})".format(p=prefix, h=h),
                "4 <= cur and cur <= len(data)".format()]),
            "for#1/for#1": dict(index="j", decreases="len(data) - cur", inv=[
                "cur == {p}_parts_pos(data, {p}_topics_e_pos_partitions(data, {p}_topics_pos(data, {h}, i)), j)".format(p=prefix, h=h),
                "yielded == {p}_items_outer(data, {h}, i) + {p}_items_inner(data, {p}_topics_pos(data, {h}, i), "
                "{p}_topics_e_pos_partitions(data, {p}_topics_pos(data, {h}, i)), j)".format(p=prefix, h=h),
                "num_partitions == {p}_parts_cnt(data, {p}_topics_e_pos_partitions(data, {p}_topics_pos(data, {h}, i)))".format(p=prefix, h=h),
                "topic == {p}_topics_e_topic(data, {p}_topics_pos(data, {h}, i))".format(p=prefix, h=h),
                "i < num_topics",
                "pre(cur) <= cur",
                "num_topics == {p}_topics_cnt(data, {h})".format(p=prefix, h=h),
                "4 <= cur and cur <= len(data)".format()]),
        })
    if closure_env:
        d['closure_env'] = closure_env
    contract(qualname)(type('_', (), d))


two_level("afkak.kafkacodec.KafkaCodec.decode_offset_commit_response", "ocr", "OffsetCommitResponse")
two_level("afkak.kafkacodec.KafkaCodec.decode_offset_fetch_response", "ofr", "OffsetFetchResponse")
two_level("afkak.kafkacodec.KafkaCodec.decode_produce_response.<v0>", "prv0", "ProduceResponse")
two_level("afkak.kafkacodec.KafkaCodec.decode_produce_response.<v2>", "prv2", "ProduceResponse")

two_level("afkak.kafkacodec.KafkaCodec.decode_fetch_response", "fr", "FetchResponse",
          sig="(data: bytes, api_version: int = 0) -> List[FetchResponse]", h="ite(api_version == 0, 4, 8)",
          requires=["api_version == 0 or api_version >= 2"], search={"data": "resp:fr", "api_version": "choice:[0]"})
