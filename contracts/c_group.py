"""afkak/_group.py: Coordinator.  C17 (never idle; error classification), C16 (heartbeats only while stable, consumers
stopped before a rejoin after eviction, one join/sync exchange at a time)."""
from pyvc.contracts import contract
from pyvc.heap import klass
from . import c_brokerclient  # noqa

G = "afkak._group.Coordinator."


@klass("ext.GroupClient")
class _:
    external = True
    fields = {"reactor": ("Ref_Reactor", False)}
    methods = {"reset_consumer_group_metadata": dict(trace="ResetGroup"),
               "_send_request_to_coordinator": dict(ret="Deferred?", trace="GroupRequest"),
               "_get_coordinator_for_group": dict(ret="Deferred?", trace="FindCoordinator"),
               "load_metadata_for_topics": dict(ret="Deferred?", trace="LoadMetadata"),
               "_load_topic_partitions": dict(ret="Deferred?", trace="LoadTopicPartitions")}


@klass("ext.PartitionConsumer")
class _:
    external = True
    # a partition Consumer as the group sees it: running as long as _start_d is set (a fired _start_d does not mean stopped)
    fields = {"_start_d": "Optional[Ref_Deferred]"}
    methods = {"stop": dict(trace="StopConsumer", reentrant=True, raises=["RestopError"]),
               "shutdown": dict(ret="Deferred?", trace="ShutdownConsumer", reentrant=True, raises=["RestopError"]),
               "start": dict(ret="Deferred?", trace="StartConsumer", reentrant=True)}


@klass("ext.GroupProtocol")
class _:
    external = True
    fields = {"protocol_type": ("str", False)}
    methods = {"join_group_protocols": dict(ret="List[_JoinGroupRequestProtocol]"), "generate_assignments": dict(ret="Any", trace="GenerateAssignments", raises=["_NeedTopicPartitions"]), "decode_assignment": dict(ret="Any")}


@klass("afkak._group.Coordinator")
class _:
    props = ["C16", "C17"]
    fields = {"client": ("Ref_GroupClient", False), "group_id": ("str", False), "initial_backoff_ms": ("float", False),
              "retry_backoff_ms": ("float", False), "fatal_backoff_ms": ("float", False), "heartbeat_interval_ms": ("float", False),
              "member_id": "str", "generation_id": "Optional[int]", "coordinator_broker": "Optional[BrokerMetadata]",
              "_start_d": "Optional[Ref_Deferred]", "_state": "str", "_rejoin_needed": "bool", "_stopping": "bool",
              "_rejoin_wait_dc": "Optional[Ref_DelayedCall]", "_rejoin_d": "Optional[Ref_Deferred]",
              "_heartbeat_looper": ("Ref_LoopingCall", False), "_heartbeat_looper_d": "Optional[Ref_Deferred]",
              "_heartbeat_request_d": "Optional[Ref_Deferred]",
              "session_timeout_ms": ("int", False), "protocol": "Optional[Ref_GroupProtocol]", "topics": ("Any", False),
              "leader_id": "Optional[str]", "consumers": "Dict[str, List[Ref_PartitionConsumer]]"}
    invariant = {
        # C17: a scheduled rejoin is represented by a PENDING timer (a fired one kept here would block every later rejoin)
        "rejoin-wait-live": "self._rejoin_wait_dc is None or active(self._rejoin_wait_dc)",
        "backoffs": "self.retry_backoff_ms >= 0 and self.fatal_backoff_ms >= 0 and self.initial_backoff_ms >= 0",
        # stop() (a stand-in here) drops the protocol object when it has finished; until a member is being stopped it is there
        "protocol-while-not-stopping": "self._stopping or self.protocol is not None",
    }
    rely = {"stopping-is-final": "implies(old(self._stopping), self._stopping)",
            # the protocol object is dropped only by a stop() that found the member not stopping and leaves it stopping
            "protocol-dropped-only-by-stop": "implies(old(self.protocol) is not None and (old(self._stopping) or not self._stopping), "
                                             "self.protocol is not None)"}
    subclass_methods = ["ConsumerGroup"]


SELF = "self: Ref_Coordinator"
ALL = ["Coordinator.*", "Deferred.*", "DelayedCall.*", "LoopingCall.*"]


def method(name, sig, **kw):
    d = dict(sig=sig, props=kw.pop('props', ["C16", "C17"]), method=True, entry_point=True)
    d.update(kw)
    contract(G + name)(type('_', (), d))


method("on_group_leave", "(%s) -> None" % SELF, modifies=ALL, inline_only=True,
       notes="ConsumerGroup overrides this to stop its partition consumers (C16); represented by its contract")
method("on_join_prepare", "(%s) -> Any" % SELF, modifies=ALL, inline_only=True)
method("stop", "(%s, errback_result: Optional[Ref_Failure] = None) -> Any" % SELF, modifies=ALL, inline_only=True)
method("_join_and_sync", "(%s) -> Ref_Deferred" % SELF, modifies=ALL, props=["C16", "C17"],
       locals={"coordinator_broker": "Optional[BrokerMetadata]", "join_response": "Optional[_JoinGroupResponse]",
               "sync_response": "Optional[_SyncGroupResponse]", "assignments": "Any", "topic_partitions": "Any", "assignment": "Any"},
       raises={"Exception": "True"},
       checkpoints={
           # C16: after stop no group request other than the leave is issued - every request of the join sequence is
           # preceded by a fresh look at the stopping flag (the sequence is suspended, and stop() may run, at every yield)
           "call:send_join_group_request#1": {"not-after-stop[C16]": "not self._stopping"},
           "call:send_sync_group_request#1": {"not-after-stop[C16]": "not self._stopping",
                                              # C15 "the leader's assignment": exactly the member elected leader computes one
                                              "only-the-leader-assigns[C15, C17]":
                                                  "join_response is not None and (n_events('GenerateAssignments') >= 1) == "
                                                  "(join_response.leader_id == join_response.member_id)",
                                              # C15: what is sent is computed from the partitions just looked up, when a lookup was needed
                                              "assignment-recomputed-after-the-lookup[C15]":
                                                  "implies(n_events('LoadTopicPartitions') == 1, n_events('GenerateAssignments') == 2)"},
           # C17: the member is marked joined BEFORE its consumers are started, so that an error one of them reports while
           # they are being started (which asks for a rejoin) is not overwritten afterwards
           "call:on_join_complete#1": {"joined-before-consumers-start[C17]": "not self._rejoin_needed and self._state == '[joined]'",
                                       # C16: no consumer is started for a member that is being stopped
                                       "no-consumers-after-stop[C16]": "not self._stopping"}})
method("get_coordinator_broker", "(%s) -> Ref_Deferred" % SELF, modifies=ALL, inline_only=True)
method("send_sync_group_request", "(%s, group_assignment: Any) -> Ref_Deferred" % SELF, modifies=ALL, inline_only=True)
method("reset_heartbeat_timer", "(%s) -> None" % SELF, modifies=ALL, inline_at_calls=True,
       # C17 "stable with heartbeats running": the heartbeat timer runs afterwards - started (with its two handlers) if it was not
       ensures={"heartbeats-running[C17]": "implies(not old(running(self._heartbeat_looper)), n_events('LoopStart') == 1 and "
                                           "n_added('_heartbeat_timer_failed') == 1 and n_added('_heartbeat_timer_stopped') == 1)"})
method("on_join_complete", "(%s, assignments: Any) -> Any" % SELF, modifies=ALL, inline_only=True)
# send_heartbeat_request / send_sync_group_request build a request struct from self.generation_id, which is None outside a
# generation: that they are only reached with a generation (set by the JoinGroup success callback that runs before the join
# sequence resumes) is not expressible without modelling callback chains, so both stay havoc-only stand-ins (listed in evidence)
method("send_heartbeat_request", "(%s) -> Ref_Deferred" % SELF, modifies=["Deferred.*"], inline_only=True, no_guarantee=True,
       establishes_invariant=False)

KAFKA_RETRIABLE = ("exc_is(p_result, 'RebalanceInProgress') or exc_is(p_result, 'CoordinatorNotAvailable') or exc_is(p_result, 'NotCoordinator') "
                   "or exc_is(p_result, 'IllegalGeneration') or exc_is(p_result, 'InvalidGroupId') or exc_is(p_result, 'UnknownMemberId') "
                   "or exc_is(p_result, 'InconsistentGroupProtocol') or exc_is(p_result, 'RequestTimedOutError')")
EVICTED = "exc_is(p_result, 'IllegalGeneration') or exc_is(p_result, 'InvalidGroupId') or exc_is(p_result, 'UnknownMemberId')"

method("rejoin_after_error", "(%s, result: Ref_Failure, label: str = 'x') -> None" % SELF,
       checkpoints={
           "call:callLater#1": {
               # C17: every Kafka error leads to a scheduled rejoin, with the documented backoff
               "flag-set-before-scheduling[C17]": "self._rejoin_needed",
               # C16: on eviction the consumers of the old generation are stopped before any rejoin is scheduled
               "evicted-consumers-stopped-first[C16]": "implies(%s, n_calls('on_group_leave') == 1)" % EVICTED,
               "non-kafka-errors-never-rejoin[C17]": "exc_is(p_result, 'KafkaError')"},
           "call:stop#1": {"only-non-kafka-errors-stop[C17]": "not exc_is(p_result, 'KafkaError') and n_calls('on_group_leave') == 1"}},
       ensures={
           "retriable-errors-schedule-a-rejoin[C17]":
               "implies((%s) and n_calls('on_group_leave') == 0, self._rejoin_needed and self._rejoin_wait_dc is not None)" % KAFKA_RETRIABLE,
           "short-backoff-for-expected-errors[C17]":
               "implies((exc_is(p_result, 'RebalanceInProgress') or exc_is(p_result, 'CoordinatorNotAvailable') or exc_is(p_result, 'NotCoordinator')) "
               "and old(self._rejoin_wait_dc) is None, n_events('Timer') == 1 and event_arg('Timer', 0, 0) == self.retry_backoff_ms / 1000.0)",
           "one-pending-rejoin[C16]": "implies(old(self._rejoin_wait_dc) is not None and n_calls('on_group_leave') == 0 and n_calls('stop') == 0, "
                                      "n_events('Timer') == 0)",
           # C17 "coordinator moved or unavailable": the cached coordinator is dropped so that the rejoin looks it up again
           # (also after a timeout)
           "stale-coordinator-forgotten[C17]":
               "n_events('ResetGroup') == ite(old(exc_is(p_result, 'CoordinatorNotAvailable')) or old(exc_is(p_result, 'NotCoordinator')) or "
               "(old(exc_is(p_result, 'RequestTimedOutError')) and not old(exc_is(p_result, 'RebalanceInProgress')) and "
               "not old(exc_is(p_result, 'IllegalGeneration')) and not old(exc_is(p_result, 'InvalidGroupId')) and "
               "not old(exc_is(p_result, 'UnknownMemberId')) and not old(exc_is(p_result, 'InconsistentGroupProtocol'))), 1, 0)",
           # C17 "unknown member": the rejected member id is dropped, the rejoin asks for a new one
           "rejected-member-id-dropped[C17]": "implies((old(exc_is(p_result, 'InvalidGroupId')) or old(exc_is(p_result, 'UnknownMemberId'))) and "
                                              "not old(exc_is(p_result, 'RebalanceInProgress')) and not old(exc_is(p_result, 'CoordinatorNotAvailable')) "
                                              "and not old(exc_is(p_result, 'NotCoordinator')) and not old(exc_is(p_result, 'IllegalGeneration')), "
                                              "self.member_id == '')",
           # C16 "on eviction (illegal generation, unknown member, timeout) they are stopped before any rejoin"
           "timeout-counts-as-eviction[C16]": "implies(old(exc_is(p_result, 'RequestTimedOutError')) and n_events('Timer') == 1, "
                                              "n_calls('on_group_leave') == 1 and event_arg('Timer', 0, 0) == self.fatal_backoff_ms / 1000.0)",
           # C17 "a non-Kafka error surfaces on the Deferred returned by start": the member is stopped with that error
           "non-kafka-errors-stop-the-member[C17]":
               "n_calls('stop') == ite(not old(exc_is(p_result, 'KafkaError')) and not (old(self._stopping) and old(exc_is(p_result, 't.CancelledError'))), 1, 0)",
           # C17 "after the documented backoff": the long backoff for errors a quick retry will not cure
           "long-backoff-for-unexpected-errors[C17]":
               "implies(n_events('Timer') == 1 and n_calls('on_group_leave') == 0 and not old(exc_is(p_result, 'RebalanceInProgress')) and "
               "not old(exc_is(p_result, 'CoordinatorNotAvailable')) and not old(exc_is(p_result, 'NotCoordinator')), "
               "event_arg('Timer', 0, 0) == self.fatal_backoff_ms / 1000.0)"})

method("join_and_sync", "(%s) -> Optional[Ref_Deferred]" % SELF, inv_exempt_at_entry=["rejoin-wait-live"],
       checkpoints={"call:_join_and_sync#1": {
           # C16: at most one join/sync exchange in flight
           "single-exchange[C16]": "old(self._rejoin_d) is None and self._rejoin_needed",
           "wait-handle-cleared[C17]": "self._rejoin_wait_dc is None"}},
       ensures={"no-second-exchange[C16]": "implies(old(self._rejoin_d) is not None or not old(self._rejoin_needed), n_calls('_join_and_sync') == 0)",
                # C17: an exchange that is started has its end recorded and its escaping errors classified
                "exchange-outcome-handled[C17]": "n_added('cleanup_rejoin_d') == n_calls('_join_and_sync') and "
                                                 "n_added('rejoin_d_errback') == n_calls('_join_and_sync')"})

method("_heartbeat", "(%s) -> None" % SELF, props=["C16"],
       checkpoints={"call:send_heartbeat_request#1": {
           "only-while-stable-member[C16]": "not self._stopping and not self._rejoin_needed and old(self._heartbeat_request_d) is None"}},
       ensures={"silent-otherwise[C16]": "implies(old(self._stopping) or old(self._rejoin_needed) or old(self._heartbeat_request_d) is not None, "
                                         "n_calls('send_heartbeat_request') == 0)",
                # C17 "stable with heartbeats running": a stable member does send one, and both of its outcomes are handled
                # (a failed heartbeat is what triggers the rejoin)
                "heartbeat-sent-and-handled[C17]": "implies(not old(self._stopping) and not old(self._rejoin_needed) and old(self._heartbeat_request_d) is None, "
                                                   "n_calls('send_heartbeat_request') == 1 and n_added('_handle_heartbeat_success') == 1 "
                                                   "and n_added('_handle_heartbeat_failure') == 1)"})

method("_handle_heartbeat_success", "(%s, result: Any) -> Any" % SELF, props=["C16"],
       ensures={"slot-cleared[C16]": "self._heartbeat_request_d is None"})

JENV = {"self": "Ref_Coordinator", "cleanup_rejoin_d": "closure", "rejoin_d_errback": "closure"}
contract(G + "join_and_sync.<cleanup_rejoin_d>")(type('_', (), dict(
    sig="(result: Any) -> Any", props=["C16"], entry_point=True, closure_env={"self": "Ref_Coordinator"},
    ensures={"exchange-finished[C16]": "self._rejoin_d is None"})))
contract(G + "join_and_sync.<rejoin_d_errback>")(type('_', (), dict(
    sig="(result: Ref_Failure) -> None", props=["C17"], entry_point=True, closure_env={"self": "Ref_Coordinator"},
    # C17 (fix 9b13ecc): a Kafka error that escaped the join/sync sequence is classified like any other failure
    ensures={"escaped-kafka-errors-are-handled[C17]": "implies(exc_is(p_result, 'KafkaError'), n_calls('rejoin_after_error') == 1)",
             # the property also wants a non-Kafka error to surface on start()'s Deferred: the code only logs it
             # (pinned by test_group.py::test_join_fatal_exception) -> KNOWN_FINDINGS.txt
             "escaped-non-kafka-errors-surface[C17]": "implies(not exc_is(p_result, 'KafkaError'), n_calls('rejoin_after_error') == 1)"})))


# ---- C11: a group join is bounded by the stated longer minimum (35 s), whatever the session timeout -------------------
contract(G + "send_join_group_request.<_join_group_success>")(type('_', (), dict(
    sig="(response: _JoinGroupResponse) -> _JoinGroupResponse", props=["C16"], entry_point=True,
    closure_env={"self": "Ref_Coordinator"},
    ensures={"records-the-generation[C16]": "self.member_id == response.member_id and self.generation_id == response.generation_id "
                                            "and self.leader_id == response.leader_id and result == response"})))

method("send_join_group_request", "(%s) -> Ref_Deferred" % SELF, props=["C11", "C16", "C17"],
       requires=["not self._stopping"],
       # C16: the reply's generation is recorded; C17: a failed JoinGroup is classified like every other error
       ensures={"both-outcomes-handled[C16, C17]": "n_added('_join_group_success') == 1 and n_added('rejoin_after_error') == 1"},
       checkpoints={"call:addCallbacks#1": {
           "join-allowed-the-stated-minimum[C11]": "n_events('GroupRequest') == 1 and event_arg('GroupRequest', 0, 4) == 35.0"}})


# ---- ConsumerGroup overrides (C16) -----------------------------------------------------------------------------------
# A ConsumerGroup IS a Coordinator: its objects live in the Coordinator heap class (extra field `consumers`), and methods
# that only the subclass defines are found through `subclass_methods` (the klass declaration above).
CG = "afkak._group.ConsumerGroup."


def cg_method(name, sig, **kw):
    d = dict(sig=sig, props=kw.pop('props', ["C16"]), method=True, entry_point=True)
    d.update(kw)
    contract(CG + name)(type('_', (), d))


cg_method("shutdown_consumers", "(%s) -> Ref_Deferred" % SELF, modifies=ALL, inline_only=True,
          notes="graceful shutdown of every partition consumer (nested loops over a dict of lists with try/except around "
                "foreign calls): represented by its contract, exercised by the bounded group scenario")
cg_method("on_join_prepare", "(%s) -> Optional[Ref_Deferred]" % SELF,
          # C16: the join sequence WAITS for the previous generation's consumers: what it yields on is their shutdown
          ensures={"hands-back-the-shutdown-to-wait-for[C16]": "result is not None and n_calls('shutdown_consumers') == 1"})

cg_method("stop", "(%s, errback_result: Optional[Ref_Failure] = None) -> Ref_Deferred" % SELF,
          raises={"RestopError": "iff:self._start_d is None or self._stopping", "Exception": "True"},
          checkpoints={"call:shutdown_consumers#1": {
              # C16: from the moment stop() is called nothing may (re)join: the member counts as stopping and a scheduled
              # rejoin is called off BEFORE the (possibly long) wait for the consumers begins
              "stopping-before-the-wait[C16]": "self._stopping and self._rejoin_wait_dc is None"}})

cg_method("stop_consumers", "(%s) -> None" % SELF,
          locals={"current_consumers": "Dict[str, List[Ref_PartitionConsumer]]"},
          raises={"Exception": "True"},
          loops={"for#1": dict(index="ti", inv=["True"]),
                 "for#1/for#1": dict(index="ci", inv=["True"], ghosts={"old_running": "consumer._start_d is not None"})},
          checkpoints={"iteration-end:for#1/for#1": {
              # C16, eviction: EVERY partition consumer that is still running is stopped - one whose start() Deferred has
              # already reported an error keeps fetching and committing until stop() is called on it
              "every-running-consumer-is-stopped[C16]": "n_events('StopConsumer') == ite(old_running, 1, 0)"}})


# ---- small callbacks of the coordinator (entry points Twisted invokes) ------------------------------------------------
method("_handle_heartbeat_failure", "(%s, failure: Ref_Failure) -> Any" % SELF, props=["C16", "C17"],
       requires=["running(self._heartbeat_looper)"],
       # the request slot is free again before anything else happens (a later heartbeat would otherwise be skipped as
       # "in progress" for ever) and the heartbeat timer is stopped
       checkpoints={"call:stop#1": {"request-slot-freed-first[C17]": "self._heartbeat_request_d is None"}},
       # C17: a failed heartbeat is classified like every other error (rejoin or stop); stopping the heartbeat timer is an
       # excursion (its Deferred's callbacks run), so no two-state claim is made about the timer afterwards
       ensures={"classified-like-any-error[C17]": "n_calls('rejoin_after_error') == 1",
                "heartbeats-stopped[C17]": "n_events('LoopStop') == 1"})

method("_heartbeat_timer_failed", "(%s, failure: Ref_Failure) -> Any" % SELF, props=["C17"])

method("_heartbeat_timer_stopped", "(%s, result: Any) -> Any" % SELF, props=["C17"],
       ensures={"cleared[C17]": "self._heartbeat_looper_d is None"})

method("start", "(%s) -> Optional[Ref_Deferred]" % SELF, props=["C17"],
       raises={"RestartError[C17]": "iff:self._start_d is not None"},
       # C17: a started member is joining at once
       checkpoints={"call:join_and_sync#1": {"fresh-start[C17]": "self._start_d is not None and not called(self._start_d)"}})

contract(G + "send_leave_group_request.<_leave_group_success>")(type('_', (), dict(
    sig="(result: Any) -> None", props=["C16"], entry_point=True, closure_env={"self": "Ref_Coordinator"},
    ensures={"membership-forgotten[C16]": "self.member_id == '' and self.generation_id is None"})))

method("send_leave_group_request", "(%s) -> Ref_Deferred" % SELF, props=["C16"],
       checkpoints={"call:addCallback#1": {"one-request[C16]": "n_events('GroupRequest') == 1"}},
       ensures={"membership-forgotten-on-success[C16]": "n_added('_leave_group_success') == 1"})
