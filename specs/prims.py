"""Native definitions of the primitive spec functions (SMT side: uninterpreted functions with the axioms listed in
pyvc/prims_smt.py).  Imported by every native spec evaluation (replay, bounded stand-in)."""
import struct
import zlib


def native(f):
    return f


def _u(fmt, size):
    def u(data, pos):
        if pos < 0 or pos + size > len(data):
            return 0          # outside the buffer the SMT function is unconstrained; natively pick 0
        return struct.unpack(fmt, data[pos:pos + size])[0]
    return u


u_i8, u_u8 = _u('>b', 1), _u('>B', 1)
u_i16, u_u16 = _u('>h', 2), _u('>H', 2)
u_i32, u_u32 = _u('>i', 4), _u('>I', 4)
u_i64, u_u64 = _u('>q', 8), _u('>Q', 8)


def _p(fmt):
    def p(x):
        return struct.pack(fmt, x)
    return p


p_i8, p_u8, p_i16, p_u16 = _p('>b'), _p('>B'), _p('>h'), _p('>H')
p_i32, p_u32, p_i64, p_u64 = _p('>i'), _p('>I'), _p('>q'), _p('>Q')


def crc32(b):
    return zlib.crc32(b) & 0xFFFFFFFF


def is_ascii_b(b):
    try:
        b.decode('ascii')
        return True
    except UnicodeDecodeError:
        return False


def is_utf8_b(b):
    try:
        b.decode('utf-8')
        return True
    except UnicodeDecodeError:
        return False


def is_ascii_s(s):
    try:
        s.encode('ascii')
        return True
    except UnicodeEncodeError:
        return False


def is_utf8_s(s):
    try:
        s.encode('utf-8')
        return True
    except UnicodeEncodeError:
        return False


def dec_ascii(b):
    return b.decode('ascii')


def dec_utf8(b):
    return b.decode('utf-8')


def enc_ascii(s):
    return s.encode('ascii')


def enc_utf8(s):
    return s.encode('utf-8')


def implies(a, b):
    return (not a) or b


def ite(c, a, b):
    return a if c else b


def join_bytes(l):
    return b''.join(l)


def gunzip(b):
    import gzip, io
    return gzip.GzipFile(fileobj=io.BytesIO(b), mode="r").read()


def gzip_ok(b):
    try:
        gunzip(b)
        return True
    except Exception:
        return False


def unsnappy(b):
    raise NotImplementedError


def snappy_ok(b):
    return False


def drain(g):
    return list(g)


class GenEq:
    """native stand-in for a lazy generator value: equal to another generator iff both drain to the same outcome"""

    def __init__(self, qualname, args):
        self.qualname, self.args = qualname, args

    def _make(self):
        import importlib
        parts = self.qualname.split('.')
        mod = importlib.import_module('.'.join(parts[:2]))
        obj = mod
        for p in parts[2:]:
            obj = getattr(obj, p)
        return obj(*self.args)

    @staticmethod
    def _drain(g):
        out = []
        try:
            for x in g:
                out.append(x)
            return (out, None)
        except Exception as e:
            return (out, type(e).__name__)

    def __iter__(self):
        return iter(self._make())

    def __eq__(self, other):
        return self._drain(self._make()) == self._drain(other._make() if isinstance(other, GenEq) else other)

    def __hash__(self):
        return 0


def mkgen(qualname, *args):
    return GenEq(qualname, args)


def forall_items(xs, pred):
    return all(pred(x) for x in xs)


def time_read(k):
    return 0.0


# ---- independent (protocol-guide) message encoder used by native harness expressions and input generation

def nat_enc_bytes32(b):
    return struct.pack('>i', -1) if b is None else struct.pack('>i', len(b)) + b


def nat_enc_msg(magic, attributes, key, value, timestamp=0):
    body = struct.pack('>bb', magic, attributes)
    if magic == 1:
        body += struct.pack('>q', timestamp)
    body += nat_enc_bytes32(key) + nat_enc_bytes32(value)
    return struct.pack('>I', zlib.crc32(body) & 0xFFFFFFFF) + body


def nat_enc_msgset(entries):
    """entries: [(offset, message bytes)]"""
    return b''.join(struct.pack('>qi', off, len(m)) + m for off, m in entries)


def nat_gzip(b):
    import gzip, io
    buf = io.BytesIO()
    with gzip.GzipFile(fileobj=buf, mode='w', mtime=0) as f:
        f.write(b)
    return buf.getvalue()


def nat_wrap_gzip(magic, message_set, timestamp=0):
    """a compressed wrapper message (bytes) around message_set"""
    return nat_enc_msg(magic, 1, None, nat_gzip(message_set), timestamp)


def dkey(d, i):
    return list(d.keys())[i]


def dval(d, i):
    return list(d.values())[i]


def grouped(xs):
    out = {}
    for t in xs:
        out.setdefault(t.topic, {})[t.partition] = t
    return out


def is_asc(xs):
    """non-decreasing list: sorted(xs) == xs"""
    return all(a <= b for a, b in zip(xs, xs[1:]))


def octets(key):
    """the octets a partition key stands for: UTF-8 of a str, the content of bytes / bytearray"""
    return key.encode('utf-8') if isinstance(key, str) else bytes(key)
