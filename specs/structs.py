"""Native struct constructors for spec evaluation (the real afkak classes, private ones included)."""
import afkak.common as _c

globals().update({n: getattr(_c, n) for n in dir(_c) if not n.startswith('__')})
__all__ = [n for n in dir(_c) if not n.startswith('__')]
