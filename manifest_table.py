CLAIMED = {
 'C05': dict(
   text="Proof level for the functions listed in evidence (functions_under_contract): every response decoder / wire reader under contract is proved, for all byte strings, to return exactly what an independent grammar-derived parser specification returns (loop invariants: cursor == spec position, yielded == spec item prefix). Decoders not yet under contract are named in the evidence 'explanation' and are not claimed.",
   note="Trusted: pyvc's encoding of the Python subset; struct/str codecs as uninterpreted bijections; z3/cvc5. The spec-level statement parse(encode(v)) == v of the grammar oracle itself is not proved here.",
   ref='DESIGN.md section 8 C05, section 12'),
 'C12': dict(
   text="Proof level for progress and bounded work: every wire reader under contract returns a cursor strictly beyond the one it was given and inside the buffer (or raises), and every decoder loop under contract carries a decreases clause len(data)-cur proved to drop on each completed iteration, so iterations are bounded by the input length whatever count fields claim.",
   note="CRC-32 burst-detection is a mathematical fact about CRC-32 that is assumed, not proved; gzip/snappy internals are external. Trusted: pyvc encoding, struct as uninterpreted bijection.",
   ref='DESIGN.md section 8 C12, section 12'),
 'C04': dict(
   text="Proof level for the encoders listed in evidence: the bytes each request encoder returns are proved equal, for all argument values, to an independent grammar-derived encoding (header key/version/correlation id/client id, null vs empty, per-partition order of the grouped payloads, message CRC over the bytes after it, attributes). encode_produce_request is a bounded stand-in (labelled, not counted as discharged); API-version selection (client.get_api_version) is covered by its own contract.",
   note="Trusted: pyvc encoding; struct/str codecs as uninterpreted functions; zlib.crc32 uninterpreted; group_by_topic_and_partition's contract (result == grouped(payloads)) is assumed in the encoders' proofs and checked only by the bounded stand-in.",
   ref='DESIGN.md section 8 C04, section 12'),
 'C06': dict(
   text="Proof level for _KafkaBrokerClient's request table: object invariant (key == request id, one Deferred answers one id, an uncancelled entry's Deferred is unfired, tombstones were sent) proved preserved by every entry point and asserted at every synchronous excursion into foreign code (re-entrancy); every callback/errback site carries a proved 'not already fired' precondition (at most once); handleResponse fires only the Deferred owned by the frame's correlation id, after removing it. Frame reassembly is Twisted's Int32StringReceiver (assumed).",
   note="Trusted: pyvc heap/re-entrancy encoding, the Twisted Deferred contract (fires at most once, callbacks on a fired Deferred run at once), the snapshot-loop rule used for _connectionLost. 'Exactly once' is proved as 'at most once' plus 'removed from the table only when fired or being cancelled'; eventual completion (liveness) is not claimed.",
   ref='DESIGN.md section 8 C06, section 12'),
 'C10': dict(
   text="Proof level for the reconnect discipline: invariants 'a pending connection attempt is an UNFIRED Deferred' and 'unanswered requests imply a connection or an attempt in progress' are preserved by every entry point of _KafkaBrokerClient (makeRequest, _connectionLost, cbConnect, ebConnect, cbDelayed, close ...); _connectionLost leaves no tombstone and marks survivors unsent; _sendQueued sends only entries still in the table with sent None.",
   note="Order of re-sending (table order) follows from iterating the ordered table and is not separately proved; backoff values are the retry policy's (external). Trusted: Twisted contracts, pyvc.",
   ref='DESIGN.md section 8 C10, section 12'),
}
NOT_APPLICABLE = {}
