import sys, importlib
sys.path.insert(0, '/verif')
from pyvc.engine import Engine
from pyvc.frontend import Repo
from pyvc.specs import SpecLib
from pyvc import typesync, units
from pyvc.contracts import CONTRACTS
from contracts.types import STRUCT_TYPES

def main():
    repo = Repo()
    typesync.register(repo, STRUCT_TYPES)
    for m in sys.argv[1].split(','):
        importlib.import_module('contracts.' + m)
    from specs import grammar; grammar.write('/verif/specs/gen_parse.py')
    specs = SpecLib(['/verif/specs'])
    eng = Engine(repo, specs)
    names = sys.argv[2:] or [q for q, c in CONTRACTS.items() if not c.inline and not c.trusted and not c.extra.get('inline_only') and not c.extra.get('bounded')]
    jobs = []
    for qn in names:
        c = CONTRACTS[qn]
        if c.extra.get('instances') == 'relative_unpack-formats':
            for f in units.formats_in_repo(repo):
                jobs.append((qn, {'fmt': f}))
        elif c.extra.get('type_instances'):
            for label, tys in c.extra['type_instances'].items():
                jobs.append((qn, {'@types': dict(tys), '@label': label}))
        else:
            jobs.append((qn, None))
    for qn, inst in jobs:
        r = units.run_unit(eng, qn, instance=inst)
        print(inst or '')
        print('==', qn, 'paths', r.paths, 'time %.2f' % r.time_s, 'undecided:', r.undecided)
        if r.error: print(r.error)
        if r.dead_ends: print('   dead ends (path, line):', r.dead_ends)
        for o, res in r.obls:
            print('   %-45s p%-3d %-9s %s %.3fs %s' % (o.name, o.path, res['verdict'], res['backend'], res['time_s'], o.note))
            if res['verdict'] == 'refuted' and res.get('model') is not None:
                m = res['model']
                print('      model:', {k: m.eval(v.t, model_completion=True) for k, v in (o.inputs or {}).items()})
main()
