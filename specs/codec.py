"""Hand-written codec specs (message format, written from the protocol guide).

Message magic 0:  crc:u32 magic:i8(0) attributes:i8 key:bytes value:bytes          crc = CRC-32(bytes after crc)
Message magic 1:  crc:u32 magic:i8(1) attributes:i8 timestamp:i64 key:bytes value:bytes
attributes & 0x07: 0 none, 1 gzip, 2 snappy.  Inner offsets of a compressed wrapper: magic 0 absolute;
magic 1 relative, the wrapper carrying the absolute offset of the LAST inner message.
"""
from typing import Dict, List, Optional, Tuple

from .prims import *  # noqa
from .wire import *  # noqa
from .structs import *  # noqa


def rec(f=None, **kw):
    if f is None:
        return lambda g: g
    return f


def entry_complete_but_corrupt(data: bytes, p: int) -> bool:
    """a COMPLETE message-set entry (offset:int64 size:int32 message) starts at p and its message fails the checksum:
    the case that must surface as a checksum error, never as a too-small fetch or a quiet end of the set"""
    return p >= 0 and p + 12 <= len(data) and u_i32(data, p + 8) >= 6 and p + 12 + u_i32(data, p + 8) <= len(data) and \
        not msg_crc_ok(data[p + 12:p + 12 + u_i32(data, p + 8)])


def msg_crc_ok(data: bytes) -> bool:
    """the stored checksum equals CRC-32 of everything after the checksum field"""
    return len(data) >= 6 and u_u32(data, 0) == crc32(data[4:])


def msg0_key(data: bytes) -> Optional[bytes]:
    return bytes32_val(data, 6)


def msg0_value(data: bytes) -> Optional[bytes]:
    return bytes32_val(data, bytes32_end(data, 6))


def msg1_ts(data: bytes) -> int:
    return u_i64(data, 6)


def msg1_key(data: bytes) -> Optional[bytes]:
    return bytes32_val(data, 14)


def msg1_value(data: bytes) -> Optional[bytes]:
    return bytes32_val(data, bytes32_end(data, 14))


@rec
def pairs_prefix(items: List[OffsetAndMessage], k: int) -> List[Tuple[int, Message]]:
    """[(m.offset, m.message) for m in items[:k]]"""
    if k <= 0:
        return []
    return pairs_prefix(items, k - 1) + [(items[k - 1].offset, items[k - 1].message)]


@rec
def abs_pairs_prefix(items: List[OffsetAndMessage], base: int, k: int) -> List[Tuple[int, Message]]:
    """[(base + m.offset, m.message) for m in items[:k]]"""
    if k <= 0:
        return []
    return abs_pairs_prefix(items, base, k - 1) + [(base + items[k - 1].offset, items[k - 1].message)]


def v1_abs_base(items: List[OffsetAndMessage], wrapper_offset: int) -> int:
    """format 1: absolute = wrapper_offset - last_inner_relative + inner_relative"""
    return wrapper_offset - items[len(items) - 1].offset


@rec
def oam_prefix(pairs: List[Tuple[int, Message]], k: int) -> List[OffsetAndMessage]:
    if k <= 0:
        return []
    return oam_prefix(pairs, k - 1) + [OffsetAndMessage(pairs[k - 1][0], pairs[k - 1][1])]


@rec
def pairs_take(items: List[Tuple[int, Message]], k: int) -> List[Tuple[int, Message]]:
    """items[:k]"""
    if k <= 0:
        return []
    return pairs_take(items, k - 1) + [items[k - 1]]


# ---------------------------------------------------------------------------------------------- encoder side

def enc_msg0(attributes: int, key: Optional[bytes], value: Optional[bytes]) -> bytes:
    return p_u32(crc32(p_u8(0) + p_u8(attributes) + enc_bytes32(key) + enc_bytes32(value))) + (
        p_u8(0) + p_u8(attributes) + enc_bytes32(key) + enc_bytes32(value))


def enc_msg1(attributes: int, key: Optional[bytes], value: Optional[bytes], timestamp: int) -> bytes:
    return p_u32(crc32(p_u8(1) + p_u8(attributes) + p_i64(timestamp) + enc_bytes32(key) + enc_bytes32(value))) + (
        p_u8(1) + p_u8(attributes) + p_i64(timestamp) + enc_bytes32(key) + enc_bytes32(value))


def msg_encodable(m: Message) -> bool:
    """field ranges the wire format can carry, and an explicit timestamp for format 1"""
    return (m.magic == 0 or (m.magic == 1 and m.timestamp is not None and -2 ** 63 <= m.timestamp and m.timestamp < 2 ** 63)) and (
        0 <= m.attributes and m.attributes <= 255) and (m.key is None or len(m.key) < 2 ** 28) and (
        m.value is None or len(m.value) < 2 ** 28)


def enc_msg(m: Message) -> bytes:
    if m.magic == 0:
        return enc_msg0(m.attributes, m.key, m.value)
    return enc_msg1(m.attributes, m.key, m.value, m.timestamp)


@rec
def enc_msgset_prefix(messages: List[Message], off0: int, incr: int, k: int) -> bytes:
    """MessageSet = { offset:int64 size:int32 message }*   (first k entries)"""
    if k <= 0:
        return b''
    return enc_msgset_prefix(messages, off0, incr, k - 1) + p_i64(ite(incr == 0, off0, off0 + (k - 1))) + p_i32(
        len(enc_msg(messages[k - 1]))) + enc_msg(messages[k - 1])


# ---------------------------------------------------------------------------------------------- request bodies

def str_ascii_ok(s: str) -> bool:
    return is_ascii_s(s) and len(enc_ascii(s)) <= 32767


@rec
def enc_strs_ascii(topics: List[str], k: int) -> bytes:
    if k <= 0:
        return b''
    return enc_strs_ascii(topics, k - 1) + enc_str16_ascii(topics[k - 1])


@rec
def enc_strs_utf8(topics: List[str], k: int) -> bytes:
    if k <= 0:
        return b''
    return enc_strs_utf8(topics, k - 1) + enc_str16_utf8(topics[k - 1])


@rec
def enc_join_protocols(ps: List[_JoinGroupRequestProtocol], k: int) -> bytes:
    """[name:str metadata:bytes]"""
    if k <= 0:
        return b''
    return enc_join_protocols(ps, k - 1) + enc_str16_ascii(ps[k - 1].protocol_name) + enc_bytes32(ps[k - 1].protocol_metadata)


@rec
def enc_sync_members(ms: List[_SyncGroupRequestMember], k: int) -> bytes:
    """[member_id:str assignment:bytes]"""
    if k <= 0:
        return b''
    return enc_sync_members(ms, k - 1) + enc_str16_utf8(ms[k - 1].member_id) + enc_bytes32(ms[k - 1].member_metadata)


# OffsetCommit v1: [topic:str [partition:i32 offset:i64 timestamp:i64 metadata:str]]
@rec
def ocq_parts(tp: Dict[int, OffsetCommitRequest], j: int) -> bytes:
    if j <= 0:
        return b''
    return ocq_parts(tp, j - 1) + p_i32(dkey(tp, j - 1)) + p_i64(dval(tp, j - 1).offset) + p_i64(
        dval(tp, j - 1).timestamp) + enc_bytes16(dval(tp, j - 1).metadata)


@rec
def ocq_topics(g: Dict[str, Dict[int, OffsetCommitRequest]], i: int) -> bytes:
    if i <= 0:
        return b''
    return ocq_topics(g, i - 1) + enc_str16_ascii(dkey(g, i - 1)) + p_i32(len(dval(g, i - 1))) + ocq_parts(
        dval(g, i - 1), len(dval(g, i - 1)))


# OffsetFetch v1: [topic:str [partition:i32]]
@rec
def ofq_parts(tp: Dict[int, OffsetFetchRequest], j: int) -> bytes:
    if j <= 0:
        return b''
    return ofq_parts(tp, j - 1) + p_i32(dkey(tp, j - 1))


@rec
def ofq_topics(g: Dict[str, Dict[int, OffsetFetchRequest]], i: int) -> bytes:
    if i <= 0:
        return b''
    return ofq_topics(g, i - 1) + enc_str16_ascii(dkey(g, i - 1)) + p_i32(len(dval(g, i - 1))) + ofq_parts(
        dval(g, i - 1), len(dval(g, i - 1)))


# Fetch v0-v2: [topic:str [partition:i32 offset:i64 max_bytes:i32]]
@rec
def fq_parts(tp: Dict[int, FetchRequest], j: int) -> bytes:
    if j <= 0:
        return b''
    return fq_parts(tp, j - 1) + p_i32(dkey(tp, j - 1)) + p_i64(dval(tp, j - 1).offset) + p_i32(dval(tp, j - 1).max_bytes)


@rec
def fq_topics(g: Dict[str, Dict[int, FetchRequest]], i: int) -> bytes:
    if i <= 0:
        return b''
    return fq_topics(g, i - 1) + enc_str16_ascii(dkey(g, i - 1)) + p_i32(len(dval(g, i - 1))) + fq_parts(
        dval(g, i - 1), len(dval(g, i - 1)))


# ListOffsets v0: [topic:str [partition:i32 timestamp:i64 max_num_offsets:i32]]
@rec
def oq_parts(tp: Dict[int, OffsetRequest], j: int) -> bytes:
    if j <= 0:
        return b''
    return oq_parts(tp, j - 1) + p_i32(dkey(tp, j - 1)) + p_i64(dval(tp, j - 1).time) + p_i32(dval(tp, j - 1).max_offsets)


@rec
def oq_topics(g: Dict[str, Dict[int, OffsetRequest]], i: int) -> bytes:
    if i <= 0:
        return b''
    return oq_topics(g, i - 1) + enc_str16_ascii(dkey(g, i - 1)) + p_i32(len(dval(g, i - 1))) + oq_parts(
        dval(g, i - 1), len(dval(g, i - 1)))


# Produce v0-v2: [topic:str [partition:i32 record_set_size:i32 record_set]]
def pq_msgset(p: ProduceRequest) -> bytes:
    return enc_msgset_prefix(p.messages, 0, 0, len(p.messages))


@rec
def pq_parts(tp: Dict[int, ProduceRequest], j: int) -> bytes:
    if j <= 0:
        return b''
    return pq_parts(tp, j - 1) + p_i32(dkey(tp, j - 1)) + p_i32(len(pq_msgset(dval(tp, j - 1)))) + pq_msgset(dval(tp, j - 1))


@rec
def pq_topics(g: Dict[str, Dict[int, ProduceRequest]], i: int) -> bytes:
    if i <= 0:
        return b''
    return pq_topics(g, i - 1) + enc_str16_ascii(dkey(g, i - 1)) + p_i32(len(dval(g, i - 1))) + pq_parts(
        dval(g, i - 1), len(dval(g, i - 1)))


def produce_header_version(api_version: int) -> int:
    """the client implements Produce v0/v1 layout (magic 0) and v2 layout (magic 1); anything above is sent as v2"""
    if api_version >= 2:
        return 2
    return api_version


def payload_msgs_ok(p: ProduceRequest) -> bool:
    return len(p.messages) < 100000000


# ---------------------------------------------------------------------------------------------- consumer

@rec
def sm_increasing(ms: List[SourcedMessage], k: int) -> bool:
    """offsets of the first k delivered messages are strictly increasing"""
    if k <= 1:
        return True
    return sm_increasing(ms, k - 1) and ms[k - 2].offset < ms[k - 1].offset


def sm_last_offset(ms: List[SourcedMessage], dflt: int) -> int:
    if len(ms) == 0:
        return dflt
    return ms[len(ms) - 1].offset


# ---------------------------------------------------------------------------------------------- producer

@rec
def bytes_prefix(msgs: List[Optional[bytes]], k: int) -> int:
    """total size of the non-null messages among the first k"""
    if k <= 0:
        return 0
    return bytes_prefix(msgs, k - 1) + ite(msgs[k - 1] is None, 0, len(msgs[k - 1]))
