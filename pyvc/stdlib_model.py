"""Trusted contracts for the few standard-library objects afkak's partitioners use (from the Python documentation;
exercised against the real objects by the bounded partitioner scenarios):

itertools.cycle(xs)   an iterator over xs repeated for ever; modelled as (items, idx) with items = the list AS GIVEN at
                      construction (assumption: the caller does not mutate that list afterwards - cycle() reads the
                      live list during its first pass), next() = items[idx], idx := idx + 1 wrapping to 0;
                      StopIteration when items is empty.
random.randint(a, b)  any integer a <= r <= b; ValueError when b < a.
sorted(xs)            for a list of ints: a permutation of xs (same length, same members) that equals xs when xs is
                      already ascending (is_asc, a spec predicate with a native body).
"""
import z3

from . import ty as T
from .ty import V, INT, BOOL, VNONE, vint
from . import heap as H
from .heap import klass


@klass("itertools.Cycle")
class _:
    external = True
    fields = {"items": ("List[int]", False), "idx": "int"}


def sorted_fn():
    from .engine import UF
    s = z3.SeqSort(z3.IntSort())
    return UF('sorted_ints', s, s)


def asc_fn():
    from .engine import UF
    return UF('is_asc', z3.SeqSort(z3.IntSort()), z3.BoolSort())


def sorted_axioms(eng, xs):
    f, asc = sorted_fn(), asc_fn()
    eng.axiom(z3.Length(f(xs)) == z3.Length(xs))
    eng.axiom(asc(f(xs)))
    eng.axiom(z3.Implies(asc(xs), f(xs) == xs))


def install(eng):
    from .engine import PyObj, PyRaise, Unsupported
    B = eng.B

    def _cycle(e, args, kwargs, fr, node):
        xs = args[0]
        if not (isinstance(xs, V) and xs.ty == ('list', INT)):
            raise Unsupported('cycle() over %s' % (getattr(xs, 'ty', xs),))
        return H.alloc(e, 'Cycle', {'items': xs, 'idx': vint(0)})

    def _randint(e, args, kwargs, fr, node):
        a, b = e.num(args[0]), e.num(args[1])
        e.prove_internal('empty range for randrange', a.t <= b.t, 'ValueError')
        r = e.fresh(INT, 'randint')
        e.assume(z3.And(a.t <= r.t, r.t <= b.t))
        return r

    def _shuffle(e, args, kwargs, fr, node):
        # random.shuffle(xs): xs becomes some permutation of itself - modelled as an unknown list of the same length
        # (a sound weakening: nothing is known about which element sits where)
        xs = args[0]
        if not (isinstance(xs, V) and xs.ty[0] == 'list') or xs.ty[1] == T.ANY:
            return VNONE
        new = e.fresh(xs.ty, 'shuffled')
        e.assume(z3.Length(new.t) == z3.Length(xs.t))
        e.assign(node.args[0], new, fr)
        return VNONE

    def _defaultdict(e, args, kwargs, fr, node):
        # collections.defaultdict(list): a dict whose missing keys read as a new empty list that is stored under the key.
        # Only this factory is modelled; the value becomes a dict of the type the sidecar declares for the local it is bound to
        f = args[0] if args else None
        if not (isinstance(f, PyObj) and f.kind == 'builtin' and f.payload is B.b_list) or len(args) != 1 or kwargs:
            raise Unsupported('defaultdict with a factory other than list')
        return PyObj('defaultdict_list')

    B.EXTERN['collections.defaultdict'] = _defaultdict
    B.EXTERN['random.shuffle'] = _shuffle
    B.EXTERN['twisted.internet.protocol.Factory.forProtocol'] = lambda e, args, kwargs, fr, node: e.fresh(T.ANY, 'factory')
    B.EXTERN['itertools.cycle'] = _cycle
    B.EXTERN['random.randint'] = _randint

    def b_next(e, args, kwargs, fr, node):
        it = args[0]
        if not (isinstance(it, V) and it.ty == ('ref', 'Cycle')):
            raise Unsupported('next() of %s' % (getattr(it, 'ty', it),))
        items = H.heap_read(e, it, 'items')
        idx = H.heap_read(e, it, 'idx')
        n = z3.Length(items.t)
        e.prove_internal('cycle over an empty list', n > 0, 'StopIteration')
        r = V(INT, items.t[idx.t])
        H.heap_write(e, it, 'idx', V(INT, z3.If(idx.t + 1 >= n, z3.IntVal(0), idx.t + 1)))
        # sorted() is a permutation: every element of xs occurs in sorted(xs)  (instantiated for the element read)
        e.axiom(z3.Implies(z3.And(idx.t >= 0, idx.t < n), z3.Contains(sorted_fn()(items.t), z3.Unit(r.t))))
        return r

    def b_sorted(e, args, kwargs, fr, node):
        xs = args[0]
        if not (isinstance(xs, V) and xs.ty == ('list', INT)) or kwargs:
            raise Unsupported('sorted() of %s' % (getattr(xs, 'ty', xs),))
        sorted_axioms(e, xs.t)
        return V(xs.ty, sorted_fn()(xs.t))

    def b_is_asc(e, args, kwargs, fr, node):
        xs = args[0]
        if not (isinstance(xs, V) and xs.ty == ('list', INT)):
            raise Unsupported('is_asc() of %s' % (getattr(xs, 'ty', xs),))
        sorted_axioms(e, xs.t)
        return V(BOOL, asc_fn()(xs.t))

    e = eng
    e.builtin_names['next'] = PyObj('builtin', b_next)
    e.builtin_names['sorted'] = PyObj('builtin', b_sorted)
    e.builtin_names['is_asc'] = PyObj('builtin', b_is_asc)
