"""Trusted contracts for the Twisted objects afkak uses (from Twisted's documentation; exercised against real Twisted
objects by the thorough tier's cross-check).  Deferred: fires at most once (callback/errback on a fired Deferred raise
AlreadyCalledError), cancel() leaves it fired, callbacks added to a fired Deferred run at once.  IDelayedCall: active
until called or cancelled; cancel() on an inactive call raises.  LoopingCall: running between start() and stop().
"""
import ast
import z3

from . import ty as T
from .ty import V, INT, BOOL, REAL, BYTES, STR, NONE, ANY, VNONE, vint, vbool
from . import heap as H
from .heap import klass, KLASSES


@klass("twisted.Deferred")
class _:
    external = True
    # owner: ghost, id of the thing it answers.  promise: ghost rank of what a success of this Deferred means to the
    # callbacks attached to it (a refinement of Deferred[T]); a callback declaring `expects=k` may only be attached where
    # promise >= k is proved
    # dl_members: ghost, the Deferreds a DeferredList was built from (empty for any other Deferred)
    fields = {"called": "bool", "failed": "bool", "owner": ("int", False), "promise": ("int", False),
              "dl_members": ("List[Ref_Deferred]", False)}


@klass("twisted.DelayedCall")
class _:
    external = True
    fields = {"is_active": "bool", "delay": ("float", False)}


@klass("twisted.LoopingCall")
class _:
    external = True
    fields = {"running": "bool", "clock": "Any"}


@klass("twisted.Failure")
class _:
    external = True
    # bare: ghost, True when the object is a bare exception instance standing where a Failure is expected
    fields = {"exc_tag": ("int", False), "bare": ("bool", False), "value": ("Ref_ExcValue", False)}


@klass("twisted.ExcValue")
class _:
    external = True
    # the exception object wrapped by a Failure, as far as afkak looks into it
    fields = {"deferred": ("Ref_Deferred", False)}


@klass("twisted.Opaque")
class _:
    external = True
    fields = {}


def is_ref(v, cls=None):
    return isinstance(v, V) and v.ty[0] == 'ref' and (cls is None or v.ty[1] == cls)


def new_deferred(eng, called, failed=None):
    init = {'called': vbool(called)}
    if failed is not None:
        init['failed'] = vbool(failed) if isinstance(failed, bool) else failed
    d = H.alloc(eng, 'Deferred', init)
    H.note_ref(eng, d)
    return d


def fire(eng, d, how, node=None):
    """d.callback / d.errback: at most once, then the callback chain runs synchronously (external call)"""
    n = eng.callcount.get('fire', 0) + 1
    eng.callcount['fire'] = n
    H.note_ref(eng, d)
    called = H.heap_read(eng, d, 'called')
    eng.B.checkpoint(eng, 'fire:%s#%d' % (how, site_ordinal(eng, node, how)))
    eng.prove('pre@Deferred.%s#%d:not-already-called' % (how, n), z3.Not(called.t), kind='pre',
              props=eng.contract.props if eng.contract else None)
    guard = (eng.contract.extra.get('fires', {}) if eng.contract else {}).get(how)
    if guard:
        from .engine import Frame
        gfr = Frame(None, parent=eng.cur_frame)
        gfr.vars['d'] = d
        eng.prove('pre@Deferred.%s#%d:fires-guard' % (how, n), eng.pure_bool(guard, gfr), kind='pre')
    H.heap_write(eng, d, 'called', vbool(True))
    H.heap_write(eng, d, 'failed', vbool(how == 'errback'))
    eng.trace_event('Fired', d, how)
    H.external_call(eng, 'Deferred.%s' % how)
    return VNONE


def site_ordinal(eng, node, attr):
    """source-order ordinal (1-based) of this `.attr(...)` call among those in the enclosing function (structural anchor)"""
    fr = getattr(eng, 'cur_frame', None)
    f = fr
    while f is not None and f.func is None:
        f = f.parent
    if f is None or node is None:
        return 0
    fi = f.func
    cache = getattr(fi, '_call_sites', None)
    if cache is None:
        cache = {}
        counts = {}
        stack = list(reversed(fi.node.body))
        order = []

        def visit(n):
            if isinstance(n, (ast.FunctionDef, ast.Lambda, ast.ClassDef)) and n is not fi.node:
                return
            for ch in ast.iter_child_nodes(n):
                visit(ch)
            if isinstance(n, ast.Call) and isinstance(n.func, ast.Attribute):
                order.append(n)
        for st_ in fi.node.body:
            visit(st_)
        order.sort(key=lambda n: (n.lineno, n.col_offset))
        for n in order:
            a = n.func.attr
            counts[a] = counts.get(a, 0) + 1
            cache[id(n)] = counts[a]
        fi._call_sites = cache
    return cache.get(id(node), 0)


def site_ordinal_name(eng, node, name):
    """like site_ordinal for plain-name calls f(...)"""
    fr = getattr(eng, 'cur_frame', None)
    f = fr
    while f is not None and f.func is None:
        f = f.parent
    if f is None or node is None:
        return 0
    fi = f.func
    order = []

    def visit(n):
        if isinstance(n, (ast.FunctionDef, ast.Lambda, ast.ClassDef)) and n is not fi.node:
            return
        for ch in ast.iter_child_nodes(n):
            visit(ch)
        if isinstance(n, ast.Call) and isinstance(n.func, ast.Name) and n.func.id == name:
            order.append(n)
    for st_ in fi.node.body:
        visit(st_)
    order.sort(key=lambda n: (n.lineno, n.col_offset))
    for i, n in enumerate(order):
        if n is node:
            return i + 1
    return 0


def deferred_method(eng, d, attr, args, kwargs, fr, node):
    from .engine import PyObj, Unsupported, PyRaise
    H.note_ref(eng, d)
    if attr in ('callback', 'errback'):
        return fire(eng, d, attr, node)
    if attr == 'cancel':
        called = H.heap_read(eng, d, 'called')
        eng.B.checkpoint(eng, 'fire:cancel#%d' % site_ordinal(eng, node, 'cancel'))
        # unfired: the canceller runs, then the Deferred fires with CancelledError unless the canceller fired it;
        # fired: cancels the Deferred it is waiting on, if any.  Both are excursions into foreign code.
        eng.trace_event('Cancel', d, 'cancel')
        H.external_call(eng, 'Deferred.cancel')
        eng.assume(z3.Or(H.heap_read(eng, d, 'called').t, called.t))
        # after cancel() an unfired Deferred is fired
        H.heap_write(eng, d, 'called', vbool(True))
        return VNONE
    if attr in ('addCallback', 'addErrback', 'addBoth', 'addCallbacks', 'addTimeout'):
        # registering on a fired Deferred runs the callable now
        eng.B.checkpoint(eng, 'call:%s#%d' % (attr, site_ordinal(eng, node, attr)))
        check_expects(eng, d, attr, args, kwargs, node)
        if attr == 'addCallbacks' and (len(args) < 2):
            args = [kwargs.get('callback', args[0] if args else None), kwargs.get('errback')] 
        called = H.heap_read(eng, d, 'called')
        cb_names = [describe_callable(a) for a in args[:2]]
        eng.trace_event('Add', d, attr + ':' + ','.join(cb_names))
        if eng.branch(called.t):
            failed = H.heap_read(eng, d, 'failed')
            if attr == 'addTimeout':
                return d
            if attr == 'addCallbacks':
                target = args[1] if eng.branch(failed.t) else args[0]
            elif attr == 'addBoth':
                target = args[0]
            elif attr == 'addCallback':
                target = args[0] if not eng.branch(failed.t) else None
            else:
                target = args[0] if eng.branch(failed.t) else None
            if target is not None:
                run_callback_now(eng, d, target, fr, node)
        return d
    if attr == 'chainDeferred':
        return d
    raise Unsupported('Deferred.%s' % attr)


def run_callback_now(eng, d, target, fr, node):
    """a callable attached to an already-fired Deferred runs synchronously.  Our own callbacks (functions of /repo under
    contract) are represented by their contract as entry points; anything else is foreign code."""
    from .engine import PyObj
    from .contracts import CONTRACTS
    fi = None
    if isinstance(target, PyObj) and target.kind in ('closure', 'bound', 'func'):
        fi = target.payload
    elif isinstance(target, PyObj) and target.kind == 'partial' and isinstance(target.payload[0], PyObj):
        fi = getattr(target.payload[0], 'payload', None)
    c = CONTRACTS.get(getattr(fi, 'qualname', None))
    if c is not None and c.extra.get('entry_point'):
        # (the chain's current result after our callback is whatever the callback produced: `failed` is havocked with
        # the rest of the mutable heap inside apply_entry_point)
        eng.B.apply_entry_point(eng, fi, c, 'callback of fired Deferred')
    else:
        H.external_call(eng, 'callback on fired Deferred')


def check_expects(eng, d, attr, args, kwargs, node):
    """success callbacks of ours that declare `expects=k` need a Deferred whose success promises at least k"""
    from .engine import PyObj
    from .contracts import CONTRACTS
    if attr not in ('addCallback', 'addCallbacks', 'addBoth'):
        return
    target = args[0] if args else kwargs.get('callback')
    fi = getattr(target, 'payload', None) if isinstance(target, PyObj) and target.kind in ('closure', 'bound', 'func') else None
    c = CONTRACTS.get(getattr(fi, 'qualname', None))
    if c is None or not c.extra.get('expects'):
        return
    n = site_ordinal(eng, node, attr)
    eng.prove('pre@%s#%d:promise-covers-%s' % (attr, n, fi.node.name), H.heap_read(eng, d, 'promise').t >= c.extra['expects'],
              kind='pre', props=c.props)


def describe_callable(a):
    from .engine import PyObj
    if isinstance(a, PyObj):
        p = a.payload
        return getattr(p, 'qualname', None) or getattr(p, 'name', None) or a.kind
    return 'value'


def delayedcall_method(eng, dc, attr, args, kwargs, fr, node):
    from .engine import PyRaise, Unsupported
    H.note_ref(eng, dc)
    if attr == 'active':
        return H.heap_read(eng, dc, 'is_active')
    if attr == 'cancel':
        act = H.heap_read(eng, dc, 'is_active')
        n = eng.callcount.get('dccancel', 0) + 1
        eng.callcount['dccancel'] = n
        eng.prove('pre@DelayedCall.cancel#%d:active' % n, act.t, kind='pre')
        H.heap_write(eng, dc, 'is_active', vbool(False))
        eng.trace_event('CancelTimer', dc, 'cancel')
        return VNONE
    if attr in ('getTime',):
        return eng.fresh(REAL, 'dctime')
    raise Unsupported('DelayedCall.%s' % attr)


def looper_method(eng, lc, attr, args, kwargs, fr, node):
    from .engine import Unsupported
    eng.B.checkpoint(eng, 'call:%s#%d' % (attr, site_ordinal(eng, node, attr)))
    if attr == 'start':
        n = eng.callcount.get('lcstart', 0) + 1
        eng.callcount['lcstart'] = n
        eng.prove('pre@LoopingCall.start#%d:not-running' % n, z3.Not(H.heap_read(eng, lc, 'running').t), kind='pre')
        H.heap_write(eng, lc, 'running', vbool(True))
        eng.trace_event('LoopStart', lc, 'start')
        return new_deferred(eng, False)
    if attr == 'stop':
        n = eng.callcount.get('lcstop', 0) + 1
        eng.callcount['lcstop'] = n
        eng.prove('pre@LoopingCall.stop#%d:running' % n, H.heap_read(eng, lc, 'running').t, kind='pre')
        H.heap_write(eng, lc, 'running', vbool(False))
        eng.trace_event('LoopStop', lc, 'stop')
        # the Deferred returned by start() fires now: its callbacks (ours: *_timer_stopped) run synchronously
        H.external_call(eng, 'LoopingCall.stop', exempt=('looper-running',))
        return VNONE
    if attr == 'reset':
        n = eng.callcount.get('lcreset', 0) + 1
        eng.callcount['lcreset'] = n
        eng.prove('pre@LoopingCall.reset#%d:running' % n, H.heap_read(eng, lc, 'running').t, kind='pre')
        return VNONE
    raise Unsupported('LoopingCall.%s' % attr)


def failure_method(eng, f, attr, args, kwargs, fr, node):
    from .engine import PyObj, Unsupported
    if attr == 'check':
        # failure.check(E1, E2...) : truthy iff the wrapped exception is an instance of one of them
        tag = H.heap_read(eng, f, 'exc_tag').t
        conds = []
        for a in args:
            if isinstance(a, PyObj) and a.kind == 'excclass':
                conds.append(exc_tag_in(eng, tag, a.payload))
            else:
                raise Unsupported('Failure.check of %r' % (a,))
        return vbool(z3.Or(conds) if conds else z3.BoolVal(False))
    if attr == 'trap':
        return VNONE
    if attr in ('getErrorMessage', 'getBriefTraceback', 'getTracebackObject', 'getTraceback'):
        return eng.fresh(STR, 'ftxt')
    raise Unsupported('Failure.%s' % attr)


def exc_tag_in(eng, tag, clsname):
    """tag denotes an exception class that is a subclass of clsname (over the closed world of classes named in /repo)"""
    subs = [n for n in eng.exc.parent if not isinstance(eng.exc.parent.get(n), tuple) and eng.exc.issub(n, clsname)]
    return z3.Or([tag == eng.exc.tag(n) for n in sorted(subs)] or [z3.BoolVal(False)])


EXT_DISPATCH = {'Deferred': deferred_method, 'DelayedCall': delayedcall_method, 'LoopingCall': looper_method,
                'Failure': failure_method}


# ---------------------------------------------------------------------------------------------- generic stubs

def generic_ext_method(eng, ref, attr, args, kwargs, fr, node):
    """methods of external classes declared with `methods = {name: dict(ret=..., raises=[...], reentrant=bool, trace=str)}`"""
    from .engine import Unsupported, PyRaise
    k = KLASSES[ref.ty[1]]
    spec = getattr(k, 'methods', {}).get(attr)
    if spec is None:
        raise Unsupported('%s.%s is not modelled' % (ref.ty[1], attr))
    if node is not None and eng.contract is not None and eng.contract.extra.get('checkpoints'):
        key = 'call:%s#%d' % (attr, site_ordinal(eng, node, attr))
        if key in eng.contract.extra['checkpoints']:
            eng.B.checkpoint(eng, key)
    if spec.get('trace'):
        # the call is an event whether or not it ends by raising
        eng.trace_event(spec['trace'], ref, attr, list(args) + [kwargs.get(k_) for k_ in sorted(kwargs)])
    for exc in spec.get('raises', []):
        if eng.branch(z3.FreshConst(z3.BoolSort(), 'raises_%s' % attr)):
            raise PyRaise(exc, msg='%s.%s raised' % (ref.ty[1], attr))
    if spec.get('reentrant'):
        H.external_call(eng, '%s.%s' % (ref.ty[1], attr))
    ret = spec.get('ret')
    if ret is None:
        return VNONE
    if ret == 'Deferred?':
        d = H.alloc(eng, 'Deferred', {'called': V(BOOL, z3.FreshConst(z3.BoolSort(), 'fired'))})
        H.note_ref(eng, d)
        return d
    if ret == 'Deferred':
        return new_deferred(eng, False)
    if ret == 'DelayedCall':
        dc = H.alloc(eng, 'DelayedCall', {'is_active': vbool(True), 'delay': eng.num(args[0], REAL) if args else T.vreal(0)})
        H.note_ref(eng, dc)
        eng.trace_event('Timer', dc, attr, list(args))
        return dc
    ty = T.parse_ty(ret)
    if ty[0] == 'ref':
        r = eng.fresh(ty, attr)
        H.assume_preexisting(eng, r)
        return r
    return eng.fresh(ty, attr)


def install(eng):
    """extern call handlers and contract-language builtins for the Twisted model"""
    from .engine import PyObj, PyRaise, Unsupported
    B = eng.B

    def _Deferred(e, args, kwargs, fr, node):
        return new_deferred(e, False)

    def _succeed(e, args, kwargs, fr, node):
        return new_deferred(e, True, False)

    def _fail(e, args, kwargs, fr, node):
        return new_deferred(e, True, True)

    def _returnValue(e, args, kwargs, fr, node):
        from .engine import _Return
        raise _Return(args[0] if args else VNONE)

    B.EXTERN['twisted.internet.defer.returnValue'] = _returnValue

    def _maybeDeferred(e, args, kwargs, fr, node):
        B.checkpoint(e, 'call:maybeDeferred#%d' % site_ordinal_name(e, node, 'maybeDeferred'))
        f = args[0]
        try:
            r = e.call(f, list(args[1:]), dict(kwargs), fr, node)
        except PyRaise:
            return new_deferred(e, True, True)
        if is_ref(r, 'Deferred'):
            return r
        return new_deferred(e, True, False)

    def _deferLater(e, args, kwargs, fr, node):
        d = new_deferred(e, False)
        e.trace_event('CallLater', d, 'deferLater', args[1:2])
        return d

    def _DeferredList(e, args, kwargs, fr, node):
        # fires once every member has fired (at once for an empty list): whether that is already the case is left open
        # except for the empty list; the members are recorded (ghost dl_members)
        init = {'called': V(BOOL, z3.FreshConst(z3.BoolSort(), 'dl_fired'))}
        ms = args[0] if args else None
        if isinstance(ms, V) and ms.ty == ('list', ('ref', 'Deferred')):
            init['dl_members'] = ms
            e.assume(z3.Implies(z3.Length(ms.t) == 0, init['called'].t))
        elif isinstance(ms, V) and ms.ty[0] == 'list' and ms.ty[1] == ANY:
            init['called'] = vbool(True)
            lty = ('list', ('ref', 'Deferred'))
            init['dl_members'] = V(lty, z3.Empty(T.sort_of(lty)))
        d = H.alloc(e, 'Deferred', init)
        H.note_ref(e, d)
        return d

    def _Failure(e, args, kwargs, fr, node):
        if args and isinstance(args[0], V) and args[0].ty[0] == 'exc':
            tag = e.exc.tag(args[0].ty[1])
        elif e.cur_exc is not None:
            tag = e.exc.tag(e.cur_exc.cls)
        else:
            tag = None
        if args and is_ref(args[0], 'Failure'):
            tagv = H.heap_read(e, args[0], 'exc_tag')          # Failure(exception instance)
        else:
            tagv = vint(tag) if tag is not None else e.fresh(INT, 'exctag')
        f = H.alloc(e, 'Failure', {'exc_tag': tagv, 'bare': vbool(False)})
        return f

    def _partial(e, args, kwargs, fr, node):
        return PyObj('partial', (args[0], list(args[1:]), dict(kwargs)))

    def _utcfromtimestamp(e, args, kwargs, fr, node):
        return e.fresh(INT, 'stamp')

    def _LoopingCall(e, args, kwargs, fr, node):
        return H.alloc(e, 'LoopingCall', {'running': vbool(False)})

    for name, h in {
        'twisted.internet.defer.Deferred': _Deferred, 'twisted.internet.defer.succeed': _succeed,
        'twisted.internet.defer.fail': _fail, 'twisted.internet.defer.maybeDeferred': _maybeDeferred,
        'twisted.internet.task.deferLater': _deferLater, 'twisted.internet.defer.DeferredList': _DeferredList,
        'twisted.python.failure.Failure': _Failure, 'functools.partial': _partial,
        'datetime.datetime.utcfromtimestamp': _utcfromtimestamp, 'twisted.internet.task.LoopingCall': _LoopingCall,
        'twisted.internet.defer.defer.succeed': _succeed, 'twisted.internet.defer.defer.fail': _fail,
        'twisted.internet.defer.defer.Deferred': _Deferred,
    }.items():
        B.EXTERN[name] = h

    def b_called(e, args, kwargs, fr, node):
        d = args[0]
        if d.ty[0] == 'opt':
            return vbool(z3.And(z3.Not(T.is_none(d)), H.heap_read(e, T.opt_val(d), 'called').t))
        return H.heap_read(e, d, 'called')

    def b_failed(e, args, kwargs, fr, node):
        d = args[0]
        if d.ty[0] == 'opt':
            return vbool(z3.And(z3.Not(T.is_none(d)), H.heap_read(e, T.opt_val(d), 'failed').t))
        return H.heap_read(e, d, 'failed')

    eng.builtin_names['failed'] = PyObj('builtin', b_failed)

    def b_active(e, args, kwargs, fr, node):
        d = args[0]
        if d.ty[0] == 'opt':
            return vbool(z3.And(z3.Not(T.is_none(d)), H.heap_read(e, T.opt_val(d), 'is_active').t))
        return H.heap_read(e, d, 'is_active')

    def b_running(e, args, kwargs, fr, node):
        d = args[0]
        if d.ty[0] == 'opt':
            return vbool(z3.And(z3.Not(T.is_none(d)), H.heap_read(e, T.opt_val(d), 'running').t))
        return H.heap_read(e, d, 'running')

    def b_dl_members(e, args, kwargs, fr, node):
        d = args[0]
        if d.ty[0] == 'opt':
            d = T.opt_val(d)
        return H.heap_read(e, d, 'dl_members')

    eng.builtin_names['dl_members'] = PyObj('builtin', b_dl_members)

    def b_is_fresh(e, args, kwargs, fr, node):
        return vbool(args[0].t >= H.FRESH_BASE)

    def b_n_events(e, args, kwargs, fr, node):
        kind = B.fmt_of(e, args[0], node.args[0], fr)
        return vint(sum(1 for ev in (e.st.trace or []) if ev[0] == kind))

    def b_events(e, args, kwargs, fr, node):
        """events('Kind') -> tuple of the labels of the events of that kind appended in this activation (in order)"""
        kind = B.fmt_of(e, args[0], node.args[0], fr)
        return T.mk_tuple([T.vstr(str(ev[2])) for ev in (e.st.trace or []) if ev[0] == kind])

    def b_event_arg(e, args, kwargs, fr, node):
        """event_arg('Kind', k, j): j-th argument of the k-th event of that kind in this activation (k < 0: from the end)"""
        kind = B.fmt_of(e, args[0], node.args[0], fr)
        k = z3.simplify(args[1].t).as_long()
        j = z3.simplify(args[2].t).as_long()
        evs = [ev for ev in (e.st.trace or []) if ev[0] == kind]
        try:
            return evs[k][3][j]
        except IndexError:
            # no such event on this path: an unconstrained value (a clause that needs the event then cannot be proved)
            return e.fresh(REAL, 'no_event')

    def b_event_ref(e, args, kwargs, fr, node):
        kind = B.fmt_of(e, args[0], node.args[0], fr)
        k = z3.simplify(args[1].t).as_long()
        evs = [ev for ev in (e.st.trace or []) if ev[0] == kind]
        try:
            return evs[k][1]
        except IndexError:
            raise Unsupported('event_ref(%s, %d): no such event' % (kind, k))

    eng.builtin_names['event_arg'] = PyObj('builtin', b_event_arg)
    eng.builtin_names['event_ref'] = PyObj('builtin', b_event_ref)

    def b_exc_is(e, args, kwargs, fr, node):
        """exc_is(failure, 'ClassName'): the Failure wraps an instance of that class (or a subclass)"""
        f = args[0]
        name = B.fmt_of(e, args[1], node.args[1], fr)
        if f.ty[0] == 'opt':
            return vbool(z3.And(z3.Not(T.is_none(f)), exc_tag_in(e, H.heap_read(e, T.opt_val(f), 'exc_tag').t, name)))
        return vbool(exc_tag_in(e, H.heap_read(e, f, 'exc_tag').t, name))

    eng.builtin_names['exc_is'] = PyObj('builtin', b_exc_is)

    def b_ack_ok(e, args, kwargs, fr, node):
        """ack_ok(result, acks): what a send Deferred may be fired with - None only with acks 0, an error-free
        ProduceResponse, or a Failure (never a bare exception instance)"""
        x, acks = args
        if not isinstance(x, V):
            return vbool(False)
        if x.ty == NONE:
            return vbool(e.num(acks).t == 0)
        if x.ty == ('struct', 'ProduceResponse'):
            return vbool(T.struct_field(x, 'error').t == 0)
        if is_ref(x, 'Failure'):
            return vbool(z3.Not(H.heap_read(e, x, 'bare').t))
        if x.ty[0] == 'opt':
            inner = b_ack_ok(e, [T.opt_val(x), acks], kwargs, fr, node)
            return vbool(z3.If(T.is_none(x), e.num(acks).t == 0, inner.t))
        return vbool(False)

    eng.builtin_names['ack_ok'] = PyObj('builtin', b_ack_ok)

    def b_n_calls(e, args, kwargs, fr, node):
        name = B.fmt_of(e, args[0], node.args[0], fr)
        return vint(sum(v for k, v in e.callcount.items() if k.endswith('.' + name) or k == name or k.endswith('.<' + name + '>')))

    eng.builtin_names['n_calls'] = PyObj('builtin', b_n_calls)

    def b_n_added(e, args, kwargs, fr, node):
        """n_added('name'): how many addCallback/addErrback/addBoth/addCallbacks registrations of this activation name a
        callable whose qualified name ends with `name` (the glue between one unit and the handler that carries on)"""
        name = B.fmt_of(e, args[0], node.args[0], fr)
        n = 0
        for ev in (e.st.trace or []):
            if ev[0] == 'Add':
                cbs = str(ev[2]).split(':', 1)[1].split(',') if ':' in str(ev[2]) else []
                n += sum(1 for c_ in cbs if c_ == name or c_.endswith('.' + name) or c_.endswith('<' + name + '>'))
        return vint(n)

    eng.builtin_names['n_added'] = PyObj('builtin', b_n_added)

    def b_added_index(e, args, kwargs, fr, node):
        """added_index('name'): position, among the handler registrations of this activation, of the first one naming
        `name` (-1 when there is none) - for clauses about the ORDER in which handlers are chained"""
        name = B.fmt_of(e, args[0], node.args[0], fr)
        i = 0
        for ev in (e.st.trace or []):
            if ev[0] == 'Add':
                cbs = str(ev[2]).split(':', 1)[1].split(',') if ':' in str(ev[2]) else []
                if any(c_ == name or c_.endswith('.' + name) or c_.endswith('<' + name + '>') for c_ in cbs):
                    return vint(i)
                i += 1
        return vint(-1)

    eng.builtin_names['added_index'] = PyObj('builtin', b_added_index)

    def b_promise(e, args, kwargs, fr, node):
        d = args[0]
        if d.ty[0] == 'opt':
            d = T.opt_val(d)
        return H.heap_read(e, d, 'promise')

    eng.builtin_names['promise'] = PyObj('builtin', b_promise)

    def b_owner(e, args, kwargs, fr, node):
        d = args[0]
        if d.ty[0] == 'opt':
            d = T.opt_val(d)
        return H.heap_read(e, d, 'owner')

    eng.builtin_names['owner'] = PyObj('builtin', b_owner)
    for nm, f in dict(called=b_called, active=b_active, running=b_running, is_fresh=b_is_fresh, n_events=b_n_events,
                      events=b_events).items():
        eng.builtin_names[nm] = PyObj('builtin', f)
