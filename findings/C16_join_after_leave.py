import sys
from unittest.mock import Mock, patch
from twisted.internet import defer, task
from twisted.python.failure import Failure
import afkak._group as G
from afkak.common import (BrokerMetadata, _JoinGroupResponse, _JoinGroupResponseMember, _SyncGroupResponse, _LeaveGroupResponse, RebalanceInProgress)
from afkak.kafkacodec import KafkaCodec

live = []
class SlowConsumer:
    def __init__(self, client, topic, partition, processor, consumer_group, commit_consumer_id, commit_generation_id, **kw):
        self.key = (topic, partition, commit_generation_id); self._start_d = None
    def start(self, offset):
        self._start_d = defer.Deferred(); live.append(self); return self._start_d
    def stop(self):
        self._start_d, d = None, self._start_d
        if self in live: live.remove(self)
        if d and not d.called: d.callback(None)
    def shutdown(self):
        return defer.Deferred()          # still processing: finishes later

clock = task.Clock(); client = Mock(reactor=clock); pending = []; log = []
client._get_coordinator_for_group.side_effect = lambda g: defer.succeed(BrokerMetadata(1, 'h', 1))
client.load_metadata_for_topics.side_effect = lambda *t: defer.succeed(True)
client._load_topic_partitions.side_effect = lambda *t: defer.succeed({'t': [0, 1]})
client.topic_partitions = {'t': [0, 1]}
def srtc(group, payload, encoder_fn, decode_fn, **kw):
    kind = type(payload).__name__; log.append(kind); d = defer.Deferred(); pending.append((kind, d)); return d
client._send_request_to_coordinator.side_effect = srtc
with patch.object(G, 'Consumer', SlowConsumer):
    g = G.ConsumerGroup(client, 'g', ['t'], lambda *a: None)
    g.start()
    meta = KafkaCodec.encode_join_group_protocol_metadata(0, ['t'], b'')
    pending.pop(0)[1].callback(_JoinGroupResponse(0, 1, 'consumer', 'me', 'me', [_JoinGroupResponseMember('me', meta)]))
    pending.pop(0)[1].callback(_SyncGroupResponse(0, KafkaCodec.encode_sync_group_member_assignment(0, {'t': [0, 1]}, b'')))
    live[0]._start_d.errback(Failure(RebalanceInProgress()))      # a rejoin is scheduled ...
    clock.advance(1.0)                                             # ... starts, and waits for the consumers to shut down
    print('requests so far:', log, '| state', g._state)
    g.stop().addErrback(lambda f: None)
    pending.pop(0)[1].callback(_LeaveGroupResponse(0))             # the broker answers the LeaveGroup
    clock.advance(5.0)
    print('requests in all :', log, '| state', g._state)
    after_leave = log[log.index('_LeaveGroupRequest') + 1:]
    print('group requests issued after the LeaveGroup of stop():', after_leave)
    sys.exit(1 if after_leave else 0)
