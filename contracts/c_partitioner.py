"""Contracts for afkak/partitioner.py.  Property C18 (hash == Java's Murmur2, selection in range and a function of key
bytes and list only; round robin: one step of a cycle over the list, restart on a changed list)."""
from pyvc.contracts import contract


@contract("afkak.partitioner.pure_murmur2")
class _:
    sig = "(byte_array: bytearray, seed: int = 2538058380) -> int"
    props = ["C18"]
    # Java: int seed, array length < 2^31
    requires = ["0 <= seed and seed < 4294967296", "len(byte_array) < 2147483648"]
    ensures = {
        "java[C18]": "result == murmur2_java(byte_array, seed)",
        "range[C18]": "0 <= result and result < 4294967296",
    }
    raises = {}
    loops = {"for#1": dict(index="i", inv=["h == mm_loop(byte_array, seed, i)", "0 <= h and h < 4294967296"],
                           modifies=["h", "k", "i4"])}
    locals = {"k": "int", "i4": "int"}
    assumes = [
        "specs/hashspec.py murmur2_java is a faithful transcription of org.apache.kafka.common.utils.Utils.murmur2 into "
        "arithmetic on unsigned 32-bit representatives (the Java source is not in the sandbox; the thorough tier checks the "
        "transcription against the six reference vectors of Kafka's UtilsTest)",
        "xor on mathematical ints is uninterpreted (pyxor) with two instantiated facts: non-negative operands give a "
        "non-negative result that sets no bit above the operands' highest; x & (2^k-1) == x mod 2^k, x & -(2^k) == x - x mod 2^k, "
        "x << c == x*2^c, x >> c == x div 2^c, ~x == -x-1 for Python's unbounded ints",
        "interval normalisation: `t % c` is replaced by t when a syntactic interval analysis of t (constants, byte reads, "
        "sums, products, mod/div by constants, xor, bounds assumed earlier on the path) shows 0 <= t < c",
    ]


from pyvc.heap import klass  # noqa: E402
from pyvc.builtins import extern  # noqa: E402
from pyvc.ty import V, INT  # noqa: E402

HP = "afkak.partitioner.HashedPartitioner."
KEY_TYPES = {"str": {"key": "str"}, "bytes": {"key": "bytes"}, "bytearray": {"key": "bytearray"}}


@klass("afkak.partitioner.HashedPartitioner")
class _:
    props = ["C18"]
    # set by Partitioner.__init__ and never refreshed: what the partitioner was created with, not the current list
    fields = {"topic": "Any", "partitions": "List[int]"}
    invariant = {}


@extern('murmurhash2.murmurhash2')
def _murmurhash2(eng, args, kwargs, fr, node):
    """ASSUMED (listed in the evidence): the optional C extension murmurhash2.murmurhash2(key: bytes, seed) returns
    MurmurHash2 of the key as an unsigned 32-bit integer, i.e. the unsigned reading of what Java's Utils.murmur2
    returns.  Its source is not part of /repo; only the pure-Python variant is proved against the spec."""
    fn = eng.specs.get('murmur2_java')
    if args[0].ty[0] != 'bytes' or args[0].ty[0:] != ('bytes',):
        from pyvc.engine import Unsupported
        raise Unsupported('murmurhash2 called with %s (the C function takes bytes only)' % (args[0].ty,))
    return eng.specs.call(eng, fn, [args[0], args[1]], {})


_HASH = dict(
    assumes=["the optional C extension murmurhash2.murmurhash2(bytes, seed) returns the unsigned reading of Java's murmur2 "
             "(its source is not part of /repo; only the pure-Python variant _hash@else1 -> pure_murmur2 is proved)",
             "a bytearray is modelled as an immutable octet sequence (the partitioner only reads it)"],
    sig="(self: Ref_HashedPartitioner, key: Any) -> int", props=["C18"], poly=["key"], type_instances=KEY_TYPES,
    ensures={"java-murmur2-of-the-key-octets[C18]": "result == murmur2_java(octets(key), 2538058380)"},
    requires=["len(octets(key)) < 2147483648"], raises={})

# the interface `self._hash(key)` is called through; each import-time variant is a unit of its own
contract(HP + "_hash")(type('_', (), dict(_HASH, interface=True, trusted=True,
                                          notes="interface contract: implemented by _hash@if1 (C extension) and "
                                                "_hash@else1 (pure Python), both verified against the same clauses")))
contract(HP + "_hash@if1")(type('_', (), dict(_HASH)))
contract(HP + "_hash@else1")(type('_', (), dict(_HASH)))

contract(HP + "partition")(type('_', (), dict(
    sig="(self: Ref_HashedPartitioner, key: Any, partitions: List[int]) -> int", props=["C18"], poly=["key"],
    type_instances=KEY_TYPES,
    requires=["len(partitions) > 0", "len(octets(key)) < 2147483648"],
    ensures={
        # toPositive(murmur2(key)) % numPartitions, as the Java DefaultPartitioner does; a function of octets and list only
        "java-partition[C18]": "result == partitions[to_positive(murmur2_java(octets(key), 2538058380)) % len(partitions)]",
    },
    raises={})))


# ---------------------------------------------------------------------------------------------- round robin
from pyvc import stdlib_model  # noqa: E402,F401

RR = "afkak.partitioner.RoundRobinPartitioner."


@klass("afkak.partitioner.RoundRobinPartitioner")
class _:
    props = ["C18"]
    # randomStart is a class attribute that set_random_start() rebinds: read through self, so modelled as a field
    fields = {"topic": "Any", "partitions": "List[int]", "iterpart": "Ref_Cycle", "randomStart": "bool"}
    invariant = {
        # the cycle runs over a permutation of the list the partitioner believes it serves
        "cycle-over-own-list": "self.partitions == sorted(self.iterpart.items)",
        "cursor-in-range": "0 <= self.iterpart.idx and (len(self.iterpart.items) == 0 or self.iterpart.idx < len(self.iterpart.items))",
    }


def rr(name, sig, **kw):
    d = dict(sig=sig, props=["C18"], method=True, entry_point=True)
    d.update(kw)
    contract(RR + name)(type('_', (), d))


rr("_set_partitions", "(self: Ref_RoundRobinPartitioner, partitions: List[int]) -> None",
   inv_exempt_at_entry=["cycle-over-own-list", "cursor-in-range"],       # also called from __init__ on a blank object
   requires=["is_asc(partitions)"],           # the property speaks of ascending lists (the producer passes sorted ones)
   ensures={
       "fresh-cycle-over-the-given-list[C18]": "sorted(self.iterpart.items) == sorted(partitions) and self.partitions == sorted(partitions)",
       "fixed-start-unless-random[C18]": "old(self.randomStart) or self.iterpart.idx == 0",
       "start-in-range[C18]": "0 <= self.iterpart.idx and (len(partitions) == 0 or self.iterpart.idx < len(partitions))",
   },
   raises={"ValueError": "self.randomStart and len(partitions) == 0"},
   loops={"for#1": dict(index="_", inv=["0 <= self.iterpart.idx and (len(self.iterpart.items) == 0 or self.iterpart.idx < len(self.iterpart.items))", "sorted(self.iterpart.items) == sorted(partitions)",
                                        "len(self.iterpart.items) == len(partitions)", "self.partitions == sorted(partitions)"])})

rr("partition", "(self: Ref_RoundRobinPartitioner, key: Any, partitions: List[int]) -> int",
   assumes=["itertools.cycle(xs) modelled as (items = xs as given, cursor) with next() = items[cursor], cursor wrapping; "
            "the caller does not mutate the list object it passed (cycle() reads the live list during its first pass; "
            "lists are values in pyvc, aliasing is not modelled) - in-place mutation is exercised by the bounded scenario",
            "random.randint(a, b) returns any integer in [a, b]; sorted(xs) is a permutation of xs equal to xs when xs is "
            "non-decreasing",
            "fairness over a window of k*n selections is the arithmetic consequence of the proved per-step contract "
            "(cursor advances by one modulo n over a fixed permutation of the list); that last counting step is not "
            "machine-checked, it is exercised by the bounded scenario"],
   requires=["len(partitions) > 0", "is_asc(partitions)"],
   ensures={
       # one step of a cycle: with the list unchanged the next element of the cycle, the cursor advancing by one and
       # wrapping at the end; with a changed list a new cycle over the new list
       "step-of-the-cycle[C18]": "implies(old(self.partitions) == partitions, self.iterpart == old(self.iterpart) and "
                                 "result == self.iterpart.items[old(self.iterpart.idx)] and self.iterpart.idx == "
                                 "ite(old(self.iterpart.idx) + 1 >= len(partitions), 0, old(self.iterpart.idx) + 1))",
       "restart-on-a-changed-list[C18]": "implies(old(self.partitions) != partitions, sorted(self.iterpart.items) == partitions "
                                         "and self.partitions == partitions)",
       "selected-from-the-list[C18]": "result in partitions",
   },
   raises={})
