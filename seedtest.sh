#!/bin/sh
# usage: ./seedtest.sh <seed-dir-name> [property-id ...]   applies the seeded change to /repo, runs the checks, undoes it
# (seed C07b belongs to property C07: the property defaults to the name without a round suffix)
id=$1; shift
prop=$(echo $id | sed 's/[a-z]*$//')
props=${*:-$prop}
cd /verif
git -C /repo diff --quiet || { echo "/repo has local modifications; refusing"; exit 3; }
git -C /repo apply /verif/seeded/$id/patch.diff || exit 3
for p in $props; do
  ./check $p --quick > /tmp/seedtest_${id}_$p.out 2>&1; rc=$?
  echo "seed $id check $p exit=$rc :: $(grep -c '^VIOLATION' /tmp/seedtest_${id}_$p.out) violation line(s)"
  grep '^VIOLATION\|^CHECKER\|^UNDECIDED' /tmp/seedtest_${id}_$p.out | head -5
done
git -C /repo checkout -- .
