"""Native side of replay and of the bounded stand-in.  Runs under /venv/bin/python with PYTHONPATH=<repo>:/verif.

Reads a JSON job on stdin:
  {mode: "replay"|"search", qualname, call (optional python expr), params:[names], inputs:{name: enc}, ensures:{}, raises:{},
   kind, search:{n, seed, hints}}
and prints a JSON result.  It calls the REAL function from the repository tree on sys.path and evaluates the
executable reading of the contract clauses with the native spec functions (specs/*.py)."""
import importlib
import json
import random
import sys
import traceback


def dec(x):
    if isinstance(x, dict):
        if '__bytes__' in x:
            return bytes.fromhex(x['__bytes__'])
        if '__bytearray__' in x:
            return bytearray.fromhex(x['__bytearray__'])
        if '__tuple__' in x:
            return tuple(dec(i) for i in x['__tuple__'])
        if '__struct__' in x:
            import afkak.common as C
            cls = getattr(C, x['__struct__'])
            return cls(**{k: dec(v) for k, v in x['fields'].items()})
        if '__dict__' in x:
            return {dec(k): dec(v) for k, v in x['__dict__']}
        if '__unrepresentable__' in x:
            return None
    if isinstance(x, list):
        return [dec(i) for i in x]
    return x


def enc(x):
    if isinstance(x, bytearray):
        return {'__bytearray__': bytes(x).hex()}
    if isinstance(x, bytes):
        return {'__bytes__': bytes(x).hex()}
    if isinstance(x, tuple):
        return {'__tuple__': [enc(i) for i in x]}
    if isinstance(x, list):
        return [enc(i) for i in x]
    if isinstance(x, dict):
        return {'__dict__': [[enc(k), enc(v)] for k, v in x.items()]}
    if hasattr(x, '__attrs_attrs__'):
        import attr
        return {'__struct__': type(x).__name__, 'fields': {a.name: enc(getattr(x, a.name)) for a in x.__attrs_attrs__}}
    if isinstance(x, (int, float, str, bool)) or x is None:
        return x
    return repr(x)


def spec_env():
    env = {}
    import specs.prims as P
    import specs.wire as W
    for m in (P, W):
        env.update({k: v for k, v in vars(m).items() if not k.startswith('__')})
    for name in ('gen_parse', 'codec', 'hashspec', 'natparse', 'small', 'murmur', 'group', 'state'):
        try:
            m = importlib.import_module('specs.' + name)
            env.update({k: v for k, v in vars(m).items() if not k.startswith('__')})
        except ImportError:
            pass
    import afkak.common as C
    env.update({k: v for k, v in vars(C).items() if not k.startswith('__')})
    from afkak.kafkacodec import KafkaCodec
    env['KafkaCodec'] = KafkaCodec
    return env


def resolve(qualname):
    parts = qualname.split('.')
    for i in range(len(parts), 0, -1):
        try:
            mod = importlib.import_module('.'.join(parts[:i]))
        except ImportError:
            continue
        obj = mod
        for p in parts[i:]:
            obj = getattr(obj, p)
        return obj
    raise ImportError(qualname)


def run_once(job, env, args):
    """-> dict(outcome, exc, failed:[clause names], result)"""
    local = dict(env)
    local.update(args)
    for k, v in args.items():
        local['old_' + k] = v
    out = dict(outcome=None, exc=None, failed=[], errors=[])
    try:
        if job.get('call'):
            res = eval(job['call'], local)
        else:
            f = resolve(job['qualname'])
            res = f(*[args[p] for p in job['params']])
        if job.get('kind') == 'generator' or hasattr(res, '__next__'):
            res = list(res)
        out['outcome'] = 'return'
    except Exception as e:
        out['outcome'] = 'raise'
        out['exc'] = type(e).__module__.split('.')[0] + '.' + type(e).__name__ if type(e).__module__ == 'struct' else type(e).__name__
        out['exc_mro'] = [c.__name__ for c in type(e).__mro__]
        out['exc_msg'] = str(e)[:200]
        res = None
    if out['outcome'] == 'return':
        local['result'] = res
        out['result'] = repr(res)[:400]
        for name, expr in job.get('ensures', {}).items():
            try:
                ok = bool(eval(expr, local))
            except Exception as e:
                out['errors'].append('%s: %s: %s' % (name, type(e).__name__, e))
                ok = True      # a clause that cannot be evaluated natively is not a witness
            if not ok:
                out['failed'].append('post.' + name.split('[')[0])
        for exc_name, cond in job.get('raises', {}).items():
            if cond.startswith('iff:'):
                try:
                    if bool(eval(cond[4:], local)):
                        out['failed'].append('post.noraise.' + exc_name.split('[')[0])
                except Exception as e:
                    out['errors'].append('%s: %s' % (exc_name, e))
    else:
        matched = None
        for exc_name, cond in job.get('raises', {}).items():
            base = exc_name.split('[')[0].split('.')[-1]
            if base in out['exc_mro'] or (base == 'error' and 'error' in out['exc_mro']):
                matched = (exc_name, cond)
                break
        if matched is None:
            out['failed'].append('unexpected-exception.' + out['exc'])
        else:
            cond = matched[1][4:] if matched[1].startswith('iff:') else matched[1]
            try:
                if not bool(eval(cond, local)):
                    out['failed'].append('xpost.' + matched[0].split('[')[0])
            except Exception as e:
                out['errors'].append('%s: %s' % (matched[0], e))
    return out


def pre_ok(job, env, args):
    local = dict(env)
    local.update(args)
    for r in job.get('requires', []):
        try:
            if not eval(r, local):
                return False
        except Exception:
            return False
    return True


def main():
    job = json.load(sys.stdin)
    if job['mode'] == 'scenario':
        from specs import scenarios
        scenarios.PROP = job.get('prop')
        r = scenarios.SCENARIOS[job['scenario']](random.Random(job.get('seed', 0)), job.get('n', 300))
        print(json.dumps(r, default=str))
        return
    env = spec_env()
    if job['mode'] == 'replay':
        args = {k: dec(v) for k, v in job['inputs'].items()}
        if not pre_ok(job, env, args):
            print(json.dumps(dict(pre=False)))
            return
        r = run_once(job, env, args)
        r['pre'] = True
        print(json.dumps(r))
        return
    # bounded search: generated inputs, first failing one is the witness
    from specs import gen_inputs
    rnd = random.Random(job['search'].get('seed', 0))
    n = job['search'].get('n', 2000)
    tried = 0
    distinct = set()
    hit = None
    for i in range(n):
        args = gen_inputs.generate(rnd, job['ptypes'], job['search'].get('hints', {}), i)
        args.update(job.get('instance') or {})
        if not pre_ok(job, env, args):
            continue
        tried += 1
        distinct.add(repr(args)[:300])
        r = run_once(job, env, args)
        if r['failed']:
            hit = dict(inputs={k: enc(v) for k, v in args.items()}, run=r)
            break
    print(json.dumps(dict(tried=tried, distinct=len(distinct), hit=hit)))


if __name__ == '__main__':
    try:
        main()
    except Exception:
        print(json.dumps(dict(harness_error=traceback.format_exc())))
