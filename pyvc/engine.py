"""pyvc engine: forward symbolic execution of the real Python AST with contracts -> named obligations.

Exec mode (program code): branching forks paths (decision-prefix re-execution); callee contracts replace
callee bodies; loops are cut by invariants.  Pure mode (contract expressions, spec functions): no forks,
conditionals become ite terms, recursive spec functions become uninterpreted with instantiated unfoldings.
"""
import ast
import itertools
import z3

from . import ty as T
from .ty import V, INT, BOOL, REAL, BYTES, STR, NONE, ANY, VNONE, vint, vbool, vbytes, vstr, vreal
from .frontend import Repo, FuncInfo, ClassInfo, ModuleInfo, anchors
from .contracts import CONTRACTS, Contract, LoopSpec


class Unsupported(Exception):
    """The unit uses a construct outside the supported subset: undecided, never 'held'."""


class PathEnd(Exception):
    pass


class PyRaise(Exception):
    def __init__(self, cls, val=None, msg=None, unknown=False):
        self.cls = cls
        self.val = val
        self.msg = msg
        # unknown: an exception of some class we know nothing about (what a failed Deferred delivers at a `yield`):
        # a handler for anything narrower than Exception may or may not catch it
        self.unknown = unknown


class _Return(Exception):
    def __init__(self, v):
        self.v = v


class _Break(Exception):
    pass


class _Continue(Exception):
    pass


class PyObj:
    """Non-value Python things: modules, classes, functions, builtins, bound methods."""

    def __init__(self, kind, payload=None, extra=None):
        self.kind = kind
        self.payload = payload
        self.extra = extra

    def __repr__(self):
        return 'PyObj(%s,%r)' % (self.kind, getattr(self.payload, 'qualname', self.payload))


class Obl:
    def __init__(self, name, kind, pc, axioms, cond, props, unit, path, note=''):
        self.name = name
        self.kind = kind
        self.pc = pc
        self.axioms = axioms
        self.cond = cond
        self.props = props
        self.unit = unit
        self.path = path
        self.note = note
        self.expect_sat = False      # covers / must-fail twins
        self.parts = None            # batched obligation: [(name, cond)]
        self.inputs = None           # name -> V  (unit parameters, for replay)
        self.verdict = None


class Frame:
    def __init__(self, func, parent=None):
        self.func = func            # FuncInfo or None
        self.vars = {}
        self.parent = parent        # lexical parent frame (closures)
        self.nonlocals = set()
        self.ghost = {}             # contract-only names (result, old values, loop indices, pre())
        self.loop_pre = []          # stack of dicts name -> V at loop entry

    def lookup(self, name):
        f = self
        while f is not None:
            if name in f.vars:
                return f.vars[name]
            f = f.parent
        return None

    def assign(self, name, val):
        if name in self.nonlocals:
            f = self.parent
            while f is not None:
                if name in f.vars:
                    f.vars[name] = val
                    return
                f = f.parent
        self.vars[name] = val


# ----------------------------------------------------------------------------------------------
# exception hierarchy

BUILTIN_EXC = {
    'BaseException': None, 'Exception': 'BaseException', 'ValueError': 'Exception', 'TypeError': 'Exception',
    'KeyError': 'LookupError', 'IndexError': 'LookupError', 'LookupError': 'Exception',
    'AttributeError': 'Exception', 'AssertionError': 'Exception', 'RuntimeError': 'Exception',
    'RecursionError': 'RuntimeError', 'NotImplementedError': 'RuntimeError', 'StopIteration': 'Exception',
    'UnicodeError': 'ValueError', 'UnicodeDecodeError': 'UnicodeError', 'UnicodeEncodeError': 'UnicodeError',
    'struct.error': 'Exception', 'OSError': 'Exception', 'ZeroDivisionError': 'ArithmeticError',
    'ArithmeticError': 'Exception', 'OverflowError': 'ArithmeticError',
    'CancelledError': 'Exception', 'AlreadyCalledError': 'Exception', 'TimeoutError': 'Exception',
    'defer.CancelledError': 'Exception', 't.CancelledError': 'Exception',
    'ConnectionDone': 'Exception', 'ConnectionLost': 'Exception', 'ConnectError': 'Exception',
    'UserError': 'Exception', 'DNSLookupError': 'Exception', 'AlreadyCancelled': 'Exception',
    'AlreadyCalled': 'Exception', 'gzip.BadGzipFile': 'OSError', 'zlib.error': 'Exception', 'EOFError': 'Exception',
}


class ExcTable:
    def __init__(self, repo):
        self.parent = dict(BUILTIN_EXC)
        common = repo.modules.get('afkak.common')
        if common:
            for name, ci in common.classes.items():
                if ci.bases and (ci.bases[0] in self.parent or ci.bases[0].endswith('Error')
                                 or ci.bases[0] in common.classes):
                    b = ci.bases[0]
                    if b == 'Exception' or b in self.parent or self._is_exc_class(common, b):
                        self.parent[name] = b
            # aliases  X = Y
            for name, val in common.assigns.items():
                if isinstance(val, ast.Name) and val.id in self.parent:
                    self.parent[name] = ('alias', val.id)
        self.tags = {}

    def _is_exc_class(self, common, name, depth=0):
        if name in BUILTIN_EXC:
            return True
        ci = common.classes.get(name)
        if ci is None or depth > 10 or not ci.bases:
            return False
        return self._is_exc_class(common, ci.bases[0], depth + 1)

    def canon(self, name):
        p = self.parent.get(name)
        if isinstance(p, tuple):
            return self.canon(p[1])
        return name

    def known(self, name):
        return name in self.parent

    def issub(self, a, b):
        a, b = self.canon(a), self.canon(b)
        seen = 0
        while a is not None and seen < 50:
            if a == b:
                return True
            a = self.parent.get(a)
            if isinstance(a, tuple):
                a = self.canon(a[1])
            seen += 1
        return False

    def tag(self, name):
        name = self.canon(name)
        if name not in self.tags:
            self.tags[name] = len(self.tags) + 1
        return self.tags[name]


# ----------------------------------------------------------------------------------------------
# primitive uninterpreted functions

STRUCT_CODES = {
    'b': (1, -2 ** 7, 2 ** 7 - 1, 'i8'), 'B': (1, 0, 2 ** 8 - 1, 'u8'),
    'h': (2, -2 ** 15, 2 ** 15 - 1, 'i16'), 'H': (2, 0, 2 ** 16 - 1, 'u16'),
    'i': (4, -2 ** 31, 2 ** 31 - 1, 'i32'), 'I': (4, 0, 2 ** 32 - 1, 'u32'),
    'q': (8, -2 ** 63, 2 ** 63 - 1, 'i64'), 'Q': (8, 0, 2 ** 64 - 1, 'u64'),
}
CODE_BY_NAME = {v[3]: (k, v[0], v[1], v[2]) for k, v in STRUCT_CODES.items()}

_uf = {}


def UF(name, *sorts):
    if name not in _uf:
        _uf[name] = z3.Function(name, *sorts)
    return _uf[name]


def u_fn(nm):
    return UF('u_' + nm, T.BytesSort, z3.IntSort(), z3.IntSort())


def p_fn(nm):
    return UF('p_' + nm, z3.IntSort(), T.BytesSort)


def parse_struct_fmt(fmt):
    """'>ihq' -> [('i',1),('h',1),('q',1)] ; only big-endian standard sizes are used by afkak."""
    if not fmt or fmt[0] != '>':
        raise Unsupported('struct format without ">" byte order: %r' % fmt)
    out = []
    num = ''
    for ch in fmt[1:]:
        if ch.isdigit():
            num += ch
        elif ch in STRUCT_CODES:
            out.append((ch, int(num) if num else 1))
            num = ''
        elif ch == ' ':
            continue
        else:
            raise Unsupported('struct format code %r' % ch)
    return out


# ----------------------------------------------------------------------------------------------


class State:
    def __init__(self, decisions):
        self.decisions = list(decisions)
        self.pos = 0
        self.pc = []
        self.axioms = []
        self.obls = []
        self.alts = []
        self.heap = {}
        self.ghost = {}
        self.yielded = None
        self.trace = None
        self.nfresh = 0
        self.notes = []


class Engine:
    def __init__(self, repo=None, specs=None, feas_timeout_ms=2000):
        self.repo = repo or Repo()
        self.exc = ExcTable(self.repo)
        self.specs = specs            # SpecLib
        self.st = None
        self.unit = None
        self.feas_timeout_ms = feas_timeout_ms
        self.stats = dict(paths=0, feas_checks=0)
        self._feas_solver = None
        self.rec_apps = {}            # UF name -> spec function (for unfolding at discharge time)
        self.max_paths = 4000
        self.builtins = None
        from . import builtins as B
        self.B = B
        B.install(self)

    # ------------------------------------------------------------------ fresh / assume / prove
    def fresh(self, ty, hint='v'):
        self.st.nfresh += 1
        return V(ty, z3.Const('%s!%d' % (hint, self.st.nfresh), T.sort_of(ty)))

    def assume(self, cond):
        if z3.is_true(cond):
            return
        self.st.pc.append(cond)
        self.B.note_bounds(self, cond)

    def axiom(self, cond):
        seen = self.st.__dict__.setdefault('axiom_ids', set())
        i = cond.get_id()
        if i in seen:
            return
        seen.add(i)
        self.st.axioms.append(cond)

    def prove(self, name, cond, kind='assert', props=None, note='', assume_after=True):
        """Record an obligation: pc => cond.  Afterwards cond is assumed (standard assert-then-assume)."""
        if z3.is_true(cond):
            cond = z3.BoolVal(True)
        o = Obl(name, kind, list(self.st.pc), list(self.st.axioms), cond,
                props if props is not None else (self.contract.props if self.contract else []),
                self.unit_name, self.path_id, note)
        o.inputs = self.inputs
        self.st.obls.append(o)
        if assume_after:
            self.assume(cond)
        return o

    def cover(self, name, props=None):
        o = Obl(name, 'cover', list(self.st.pc), list(self.st.axioms), z3.BoolVal(False),
                props if props is not None else (self.contract.props if self.contract else []),
                self.unit_name, self.path_id)
        o.expect_sat = True
        o.inputs = self.inputs
        self.st.obls.append(o)

    # ------------------------------------------------------------------ branching
    def feasible(self, cond):
        self.stats['feas_checks'] += 1
        s = z3.Solver()
        s.set('timeout', self.feas_timeout_ms)
        for c in self.st.pc:
            s.add(c)
        s.add(cond)
        r = s.check()
        return r != z3.unsat

    def choose(self, conds, labels=None):
        """Fork on a list of (mutually exclusive or not) branch conditions; returns the index taken."""
        st = self.st
        if st.pos < len(st.decisions):
            idx = st.decisions[st.pos]
            st.pos += 1
            self.assume(conds[idx])
            return idx
        feas = []
        for i, c in enumerate(conds):
            if z3.is_false(c):
                continue
            if z3.is_true(c) or self.feasible(c):
                feas.append(i)
        if not feas:
            # no alternative is satisfiable: the path condition itself has become contradictory (an assumed contract
            # clause / invariant excludes this path).  Recorded so that such cuts can be audited (units.UnitResult.dead_ends)
            node = getattr(self, 'cur_node', None)
            self.stats.setdefault('dead_ends', []).append((self.path_id, getattr(node, 'lineno', None)))
            raise PathEnd()
        for j in feas[1:]:
            st.alts.append(st.decisions[:st.pos] + [j])
        idx = feas[0]
        st.decisions = st.decisions[:st.pos] + [idx]
        st.pos += 1
        self.assume(conds[idx])
        return idx

    def branch(self, cond):
        """True/False fork on a z3 Bool."""
        sc = z3.simplify(cond)     # only to recognise trivial conditions; the unsimplified term is what is assumed
        if z3.is_true(sc):
            return True
        if z3.is_false(sc):
            return False
        return self.choose([cond, z3.Not(cond)]) == 0

    # ------------------------------------------------------------------ truthiness / comparison
    def truth(self, v):
        if isinstance(v, PyObj):
            return z3.BoolVal(True)
        k = v.ty[0]
        if k == 'bool':
            return v.t
        if k == 'int':
            return v.t != 0
        if k == 'real':
            return v.t != 0
        if k == 'none':
            return z3.BoolVal(False)
        if k in ('bytes', 'list'):
            if v.t is None:
                return z3.BoolVal(False)
            return z3.Length(v.t) > 0
        if k == 'dict':
            return z3.Length(T.dict_keys(v)) > 0
        if k == 'opt':
            inner = self.truth(T.opt_val(v))
            return z3.And(z3.Not(T.is_none(v)), inner)
        if k in ('ref', 'struct', 'tuple', 'exc', 'gen', 'fn', 'any'):
            if k == 'tuple':
                return z3.BoolVal(len(v.ty[1]) > 0)
            if k == 'any':
                return z3.FreshConst(z3.BoolSort(), 'truth_any')
            return z3.BoolVal(True)
        if k == 'str':
            return UF('str_len', T.StrSort, z3.IntSort())(v.t) > 0
        raise Unsupported('truthiness of %s' % (v.ty,))

    def eq(self, a, b):
        """Python == as a z3 Bool."""
        if isinstance(a, PyObj) or isinstance(b, PyObj):
            if isinstance(a, PyObj) and isinstance(b, PyObj):
                return z3.BoolVal(a.kind == b.kind and a.payload is b.payload)
            return z3.BoolVal(False)
        if a.ty == b.ty:
            return a.t == b.t
        ka, kb = a.ty[0], b.ty[0]
        if ka == 'none' and kb == 'opt':
            return T.is_none(b)
        if kb == 'none' and ka == 'opt':
            return T.is_none(a)
        if ka == 'none' or kb == 'none':
            return z3.BoolVal(ka == kb)
        if ka == 'opt' and kb != 'opt':
            if T.coercible(b.ty, a.ty[1]):
                return z3.And(z3.Not(T.is_none(a)), self.eq(T.opt_val(a), b))
            return z3.BoolVal(False)
        if kb == 'opt' and ka != 'opt':
            return self.eq(b, a)
        if ka == 'opt' and kb == 'opt':
            return z3.Or(z3.And(T.is_none(a), T.is_none(b)),
                         z3.And(z3.Not(T.is_none(a)), z3.Not(T.is_none(b)), self.eq(T.opt_val(a), T.opt_val(b))))
        if {ka, kb} <= {'int', 'real', 'bool'}:
            return self.num(a, REAL if 'real' in (ka, kb) else INT).t == self.num(b, REAL if 'real' in (ka, kb) else INT).t
        if ka == 'tuple' and kb == 'tuple':
            if len(a.ty[1]) != len(b.ty[1]):
                return z3.BoolVal(False)
            return z3.And([self.eq(x, y) for x, y in zip(T.tuple_items(a), T.tuple_items(b))] or [z3.BoolVal(True)])
        if ka == 'list' and kb == 'list' and (a.ty[1] == ANY or b.ty[1] == ANY):
            other = b if a.ty[1] == ANY else a
            return z3.Length(other.t) == 0
        if ka == 'struct' and kb == 'tuple' or ka == 'tuple' and kb == 'struct':
            return z3.BoolVal(False)   # BaseStruct.__eq__ returns NotImplemented for non-struct -> False
        return z3.BoolVal(False)

    def num(self, v, to=None):
        if v.ty == BOOL:
            v = T.coerce(v, INT)
        if to == REAL and v.ty == INT:
            return T.coerce(v, REAL)
        if v.ty[0] == 'opt' and v.ty[1] in (INT, REAL):
            self.prove_internal('not-none', z3.Not(T.is_none(v)), 'TypeError')
            return self.num(T.opt_val(v), to)
        if v.ty not in (INT, REAL):
            raise Unsupported('numeric use of %s' % (v.ty,))
        return v

    def prove_internal(self, what, cond, exc_cls):
        """A Python-level implicit check (None arithmetic, index in range...): if it can fail the code raises
        exc_cls at this point; we fork so that the exceptional path is explored like any raise."""
        if z3.is_true(z3.simplify(cond)):
            return
        if self.pure:
            return    # contract expressions are total: partial operations are underspecified terms
        if self.branch(cond):
            return
        raise PyRaise(exc_cls, msg=what)

    # ------------------------------------------------------------------ name resolution
    def lookup_name(self, name, fr):
        if self.pure and name == 'yielded' and self.st is not None and self.st.yielded is not None:
            f = fr
            while f is not None:
                if 'yielded' in f.ghost:
                    return f.ghost['yielded']
                f = f.parent
            return self.st.yielded
        if fr is not None:
            f = fr
            while f is not None:
                if self.pure and name in f.ghost:
                    return f.ghost[name]
                if name in f.vars:
                    return f.vars[name]
                f = f.parent
        if self.pure and self.specs is not None and self.specs.has(name):
            g = self.specs.get(name)
            if isinstance(g, tuple):
                return self.eval(g[1], Frame(None))        # a constant of a spec module
            return PyObj('spec', g)
        mod = self.cur_module(fr)
        if mod is not None:
            r = self.module_name(mod, name)
            if r is not None:
                return r
        if name in self.builtin_names:
            return self.builtin_names[name]
        if self.specs is not None and self.specs.has(name):
            g = self.specs.get(name)
            if isinstance(g, tuple):
                return self.eval(g[1], Frame(None))
            return PyObj('spec', g)
        if name in T.STRUCTS:
            return PyObj('class', self.repo.modules['afkak.common'].classes[name])
        raise Unsupported('name %r cannot be resolved' % name)

    def cur_module(self, fr):
        f = fr
        while f is not None:
            if f.func is not None:
                return f.func.module
            f = f.parent
        return self.unit_module

    def module_name(self, mod, name, depth=0):
        if name in mod.funcs:
            return PyObj('func', mod.funcs[name])
        if name in mod.classes:
            if self.exc.known(name) and mod.name == 'afkak.common':
                return PyObj('excclass', name)
            return PyObj('class', mod.classes[name])
        if name in mod.assigns:
            return self.module_const(mod, name)
        if name in mod.imports:
            r = self.repo.resolve_import(mod, name)
            if r is not None:
                m2, n2 = r
                if n2 is None:
                    return PyObj('repomodule', m2)
                return self.module_name(m2, n2, depth + 1)
            m, n = mod.imports[name]
            full = m if n is None else m + '.' + n
            if full in ('struct', 'zlib', 'time', 'sys'):
                return PyObj('module', full)
            if full in self.exc.parent:
                return PyObj('excclass', full)
            if full in ('twisted.internet.defer.CancelledError', 'twisted.internet.error.CancelledError'):
                return PyObj('excclass', 't.CancelledError')
            if full.startswith('twisted.') and full.split('.')[-1] in self.exc.parent and full.split('.')[-1][0].isupper() \
                    and full.split('.')[-1].endswith(('Error', 'Done', 'Lost', 'Cancelled', 'Called')):
                return PyObj('excclass', full.split('.')[-1])
            return PyObj('extern', full)
        return None

    def module_const(self, mod, name):
        node = mod.assigns[name]
        fr = Frame(None)
        fr.modinfo = mod
        saved = self.unit_module
        self.unit_module = mod
        try:
            return self.eval(node, fr)
        finally:
            self.unit_module = saved

    # ------------------------------------------------------------------ expression evaluation
    def eval(self, node, fr):
        m = getattr(self, 'e_' + type(node).__name__, None)
        if m is None:
            raise Unsupported('expression %s' % type(node).__name__)
        return m(node, fr)

    def e_Constant(self, node, fr):
        v = node.value
        if v is None:
            return VNONE
        if isinstance(v, bool):
            return vbool(v)
        if isinstance(v, int):
            return vint(v)
        if isinstance(v, float):
            return vreal(repr(v))
        if isinstance(v, bytes):
            return vbytes(v)
        if isinstance(v, str):
            return vstr(v)
        if v is Ellipsis:
            return VNONE
        raise Unsupported('constant %r' % (v,))

    def e_Name(self, node, fr):
        return self.lookup_name(node.id, fr)

    def e_Tuple(self, node, fr):
        items = []
        for e in node.elts:
            if isinstance(e, ast.Starred):
                raise Unsupported('starred in tuple')
            items.append(self.val(self.eval(e, fr)))
        return T.mk_tuple(items)

    def e_List(self, node, fr):
        if not node.elts:
            return V(('list', ANY), None)
        items = [self.val(self.eval(e, fr)) for e in node.elts]
        ety = items[0].ty
        for it in items[1:]:
            if it.ty != ety:
                ety = self.join_ty(ety, it.ty)
        items = [T.coerce(i, ety) for i in items]
        units = [z3.Unit(i.t) for i in items]
        lt = units[0] if len(units) == 1 else z3.Concat(*units)
        if ety == BYTES:
            j = self.B.join_fn()
            acc = items[0].t
            for i in items[1:]:
                acc = self.B.concat(acc, i.t)
            self.axiom(j(lt) == acc)
        return V(('list', ety), lt)

    def e_Dict(self, node, fr):
        if not node.keys:
            return V(('dict', ANY, ANY), None)
        raise Unsupported('non-empty dict literal')

    def join_ty(self, a, b):
        if a == b:
            return a
        if a == NONE:
            return T.opt(b)
        if b == NONE:
            return T.opt(a)
        if a[0] == 'opt' and T.coercible(b, a):
            return a
        if b[0] == 'opt' and T.coercible(a, b):
            return b
        if {a, b} == {INT, REAL}:
            return REAL
        raise Unsupported('cannot join types %s and %s' % (a, b))

    def val(self, x):
        if isinstance(x, PyObj):
            if x.kind == 'func' or x.kind == 'closure' or x.kind == 'bound':
                return x
            return x
        return x

    def e_JoinedStr(self, node, fr):
        for v in node.values:
            if isinstance(v, ast.FormattedValue):
                self.eval(v.value, fr)
        return self.fresh(STR, 'fstr')

    def e_Lambda(self, node, fr):
        return PyObj('lambda', node, fr)

    def e_IfExp(self, node, fr):
        c = self.truth(self.eval(node.test, fr))
        if self.pure:
            a = self.eval(node.body, fr)
            b = self.eval(node.orelse, fr)
            return self.ite(c, a, b)
        if self.branch(c):
            return self.eval(node.body, fr)
        return self.eval(node.orelse, fr)

    def ite(self, c, a, b):
        sc = z3.simplify(c)
        if z3.is_true(sc):
            return a
        if z3.is_false(sc):
            return b
        if a.ty != b.ty:
            ty = self.join_ty(a.ty, b.ty)
            a, b = T.coerce(a, ty), T.coerce(b, ty)
        return V(a.ty, z3.If(c, a.t, b.t))

    def e_BoolOp(self, node, fr):
        if self.pure:
            # contract expressions: operands after a STATICALLY decided one are not evaluated (`hasattr(x, 'f') and x.f > 0`
            # where the static type of x has no field f)
            vals = []
            for v in node.values:
                t = self.truth(self.eval(v, fr))
                vals.append(t)
                st_ = z3.simplify(t)
                if (isinstance(node.op, ast.And) and z3.is_false(st_)) or (isinstance(node.op, ast.Or) and z3.is_true(st_)):
                    break
            return vbool(z3.And(vals) if isinstance(node.op, ast.And) else z3.Or(vals))
        # exec mode: short-circuit with forks, value semantics (returns last evaluated operand)
        last = None
        for i, vnode in enumerate(node.values):
            last = self.eval(vnode, fr)
            if i == len(node.values) - 1:
                return last
            t = self.truth(last)
            if isinstance(node.op, ast.And):
                if not self.branch(t):
                    return last
            else:
                if self.branch(t):
                    return last
        return last

    def e_UnaryOp(self, node, fr):
        v = self.eval(node.operand, fr)
        if isinstance(node.op, ast.Not):
            return vbool(z3.Not(self.truth(v)))
        if isinstance(node.op, ast.USub):
            v = self.num(v)
            return V(v.ty, -v.t)
        if isinstance(node.op, ast.UAdd):
            return self.num(v)
        if isinstance(node.op, ast.Invert):
            v = self.num(v)
            if v.ty != INT:
                raise Unsupported('~ on a non-int')
            return V(INT, -v.t - 1)            # two's complement of unbounded ints: ~x == -x - 1
        raise Unsupported('unary op %s' % type(node.op).__name__)

    def e_Compare(self, node, fr):
        left = self.eval(node.left, fr)
        conds = []
        for op, rnode in zip(node.ops, node.comparators):
            right = self.eval(rnode, fr)
            conds.append(self.compare(op, left, right, node))
            left = right
        return vbool(conds[0] if len(conds) == 1 else z3.And(conds))

    def compare(self, op, a, b, node=None):
        if isinstance(op, ast.Eq):
            return self.eq(a, b)
        if isinstance(op, ast.NotEq):
            return z3.Not(self.eq(a, b))
        if isinstance(op, ast.Is):
            if isinstance(b, V) and b.ty == NONE:
                return T.is_none(a) if isinstance(a, V) else z3.BoolVal(False)
            if isinstance(a, V) and a.ty == NONE:
                return T.is_none(b) if isinstance(b, V) else z3.BoolVal(False)
            if isinstance(a, V) and isinstance(b, V) and a.ty == BOOL and b.ty == BOOL:
                return a.t == b.t
            if isinstance(a, V) and isinstance(b, V) and a.ty[0] in ('ref', 'opt') and b.ty[0] in ('ref', 'opt'):
                return self.eq(a, b)
            raise Unsupported('`is` on %s' % (getattr(a, 'ty', a),))
        if isinstance(op, ast.IsNot):
            return z3.Not(self.compare(ast.Is(), a, b))
        if isinstance(op, (ast.Lt, ast.LtE, ast.Gt, ast.GtE)):
            if a.ty[0] == 'tuple' and b.ty[0] == 'tuple':
                return self.tuple_lt(op, a, b)
            if a.ty == STR and b.ty == STR:
                lt = UF('str_lt', T.StrSort, T.StrSort, z3.BoolSort())
                if isinstance(op, ast.Lt):
                    return lt(a.t, b.t)
                if isinstance(op, ast.Gt):
                    return lt(b.t, a.t)
                if isinstance(op, ast.LtE):
                    return z3.Not(lt(b.t, a.t))
                return z3.Not(lt(a.t, b.t))
            to = REAL if REAL in (a.ty, b.ty) or (a.ty[0] == 'opt' and a.ty[1] == REAL) else None
            x, y = self.num(a, to), self.num(b, to)
            if x.ty != y.ty:
                x, y = self.num(x, REAL), self.num(y, REAL)
            return {ast.Lt: x.t < y.t, ast.LtE: x.t <= y.t, ast.Gt: x.t > y.t, ast.GtE: x.t >= y.t}[type(op)]
        if isinstance(op, (ast.In, ast.NotIn)):
            r = self.contains(b, a)
            return r if isinstance(op, ast.In) else z3.Not(r)
        raise Unsupported('comparison %s' % type(op).__name__)

    def tuple_lt(self, op, a, b):
        xs, ys = T.tuple_items(a), T.tuple_items(b)
        strict = isinstance(op, (ast.Lt, ast.Gt))
        if isinstance(op, (ast.Gt, ast.GtE)):
            xs, ys = ys, xs
        # lexicographic
        res = z3.BoolVal(not strict) if len(xs) == len(ys) else z3.BoolVal(len(xs) < len(ys))
        for x, y in reversed(list(zip(xs, ys))):
            res = z3.Or(self.compare(ast.Lt(), x, y), z3.And(self.eq(x, y), res))
        return res

    def contains(self, container, item):
        if isinstance(container, PyObj):
            raise Unsupported('in on %r' % container)
        k = container.ty[0]
        if k == 'opt':
            # `x in None` raises TypeError; contract expressions are total (the None case is excluded by the caller)
            self.prove_internal('membership test on None', z3.Not(T.is_none(container)), 'TypeError')
            return self.contains(T.opt_val(container), item)
        if k == 'tuple':
            return z3.Or([self.eq(item, x) for x in T.tuple_items(container)] or [z3.BoolVal(False)])
        if k == 'list':
            if container.ty[1] == ANY:
                return z3.BoolVal(False)
            it = T.coerce(item, container.ty[1])
            return z3.Contains(container.t, z3.Unit(it.t))
        if k == 'dict':
            if container.ty[1] == ANY:
                return z3.BoolVal(False)
            it = T.coerce(item, container.ty[1])
            return self.B.dict_member(self, container, it.t)
        if k == 'set':
            it = T.coerce(item, container.ty[1])
            return z3.Select(container.t, it.t)
        raise Unsupported('in on %s' % (container.ty,))

    def e_BinOp(self, node, fr):
        a = self.eval(node.left, fr)
        b = self.eval(node.right, fr)
        return self.binop(node.op, a, b)

    def lit(self, x):
        if x is None:
            return VNONE
        if isinstance(x, bool):
            return vbool(x)
        if isinstance(x, int):
            return vint(x)
        if isinstance(x, bytes):
            return vbytes(x)
        if isinstance(x, str):
            return vstr(x)
        raise Unsupported('literal %r' % (x,))

    def binop(self, op, a, b):
        if isinstance(a, PyObj) or isinstance(b, PyObj):
            raise Unsupported('binary op on non-values')
        if self.pure:
            if a.ty[0] == 'opt':
                a = T.opt_val(a)
            if b.ty[0] == 'opt':
                b = T.opt_val(b)
        else:
            if a.ty[0] == 'opt':
                self.prove_internal('operand is None', z3.Not(T.is_none(a)), 'TypeError')
                a = T.opt_val(a)
            if b.ty[0] == 'opt':
                self.prove_internal('operand is None', z3.Not(T.is_none(b)), 'TypeError')
                b = T.opt_val(b)
        ka, kb = a.ty[0], b.ty[0]
        if isinstance(op, ast.Add):
            if ka == 'bytes' and kb == 'bytes':
                return V(BYTES, self.B.concat(a.t, b.t))
            if ka == 'list' and kb == 'list':
                if a.ty[1] == ANY:
                    return b
                if b.ty[1] == ANY:
                    return a
                if a.ty != b.ty:
                    raise Unsupported('list + of different element types')
                return V(a.ty, self.B.concat(a.t, b.t))
            if ka == 'tuple' and kb == 'tuple':
                return T.mk_tuple(T.tuple_items(a) + T.tuple_items(b))
            if ka == 'str' and kb == 'str':
                return V(STR, UF('str_cat', T.StrSort, T.StrSort, T.StrSort)(a.t, b.t))
        if isinstance(op, ast.Mod) and ka in ('str', 'bytes'):
            return self.fresh(a.ty, 'fmt')
        if isinstance(op, ast.Mult) and ka == 'list' and kb == 'int' or isinstance(op, ast.Mult) and ka == 'bytes':
            raise Unsupported('sequence repetition')
        if isinstance(op, (ast.BitAnd, ast.BitOr, ast.BitXor, ast.LShift, ast.RShift)):
            return self.B.bitop(self, op, a, b)
        to = REAL if REAL in (a.ty, b.ty) or isinstance(op, ast.Div) else None
        x, y = self.num(a, to), self.num(b, to)
        if x.ty != y.ty:
            x, y = self.num(x, REAL), self.num(y, REAL)
        if isinstance(op, ast.Add):
            return V(x.ty, x.t + y.t)
        if isinstance(op, ast.Sub):
            return V(x.ty, x.t - y.t)
        if isinstance(op, ast.Mult):
            return V(x.ty, x.t * y.t)
        if isinstance(op, ast.Div):
            self.prove_internal('division by zero', y.t != 0, 'ZeroDivisionError')
            return V(REAL, x.t / y.t)
        if isinstance(op, (ast.FloorDiv, ast.Mod)):
            if x.ty != INT:
                raise Unsupported('float floor division')
            self.prove_internal('division by zero', y.t != 0, 'ZeroDivisionError')
            # Python floor semantics; z3 div/mod are Euclidean: identical for positive divisors
            yv = z3.simplify(y.t)
            if z3.is_int_value(yv) and yv.as_long() > 0:
                return V(INT, x.t / y.t if isinstance(op, ast.FloorDiv) else self.B.smod(self, x.t, yv.as_long()))
            q = z3.If(y.t > 0, x.t / y.t, z3.If(x.t % y.t == 0, x.t / y.t, x.t / y.t))  # refined below
            # floor(x/y) for y<0: -ceil(x/-y) = -((x + (-y) - 1) div (-y)) when using Euclidean div on positive divisor
            ny = -y.t
            fq_neg = -((x.t + ny - 1) / ny)
            fq = z3.If(y.t > 0, x.t / y.t, fq_neg)
            if isinstance(op, ast.FloorDiv):
                return V(INT, fq)
            return V(INT, x.t - fq * y.t)
        if isinstance(op, ast.Pow):
            xv, yv = z3.simplify(x.t), z3.simplify(y.t)
            if z3.is_int_value(xv) and z3.is_int_value(yv) and yv.as_long() >= 0:
                return vint(xv.as_long() ** yv.as_long())
            raise Unsupported('symbolic power')
        raise Unsupported('binary op %s' % type(op).__name__)

    def e_Attribute(self, node, fr):
        base = self.eval(node.value, fr)
        return self.getattr(base, node.attr, fr, node)

    def getattr(self, base, attr, fr=None, node=None):
        if isinstance(base, PyObj):
            return self.B.pyobj_attr(self, base, attr)
        k = base.ty[0]
        if k == 'struct':
            try:
                return T.struct_field(base, attr)
            except AttributeError:
                raise Unsupported('struct %s has no field %s' % (base.ty[1], attr))
        if k == 'ref':
            return self.heap_read(base, attr)
        if k == 'opt':
            self.prove_internal('attribute of None', z3.Not(T.is_none(base)), 'AttributeError')
            return self.getattr(T.opt_val(base), attr, fr, node)
        if k == 'none':
            raise PyRaise('AttributeError', msg='None.%s' % attr)
        return PyObj('method', (base, attr), node.value if node is not None else None)

    def e_Subscript(self, node, fr):
        base = self.eval(node.value, fr)
        if isinstance(node.slice, ast.Slice):
            lo = self.eval(node.slice.lower, fr) if node.slice.lower is not None else None
            hi = self.eval(node.slice.upper, fr) if node.slice.upper is not None else None
            if node.slice.step is not None:
                raise Unsupported('slice step')
            return self.B.slice(self, base, lo, hi)
        idx = self.eval(node.slice, fr)
        if not self.pure and isinstance(node.value, ast.Name) and isinstance(base, V) and base.ty[0] == 'dict':
            f = fr
            while f is not None and node.value.id not in f.vars:
                f = f.parent
            if f is not None and node.value.id in f.ghost.get('defaultdicts', ()):
                # defaultdict(list): a missing key reads as a new empty list, which is stored under the key
                key = T.coerce(idx, base.ty[1])
                if self.branch(self.B.dict_member(self, base, key.t)):
                    return self.B.index(self, base, idx)
                empty = V(base.ty[2], z3.Empty(T.sort_of(base.ty[2])))
                f.assign(node.value.id, self.B.dict_set(self, base, key, empty))
                return empty
            if f is not None and node.value.id in f.ghost.get('defaultdicts_store_only', ()):
                key = T.coerce(idx, base.ty[1])
                if not self.branch(self.B.dict_member(self, base, key.t)):
                    raise Unsupported('missing key read from defaultdict %s declared with non-list values' % node.value.id)
        return self.B.index(self, base, idx)

    def e_ListComp(self, node, fr):
        return self.B.listcomp(self, node, fr)

    def e_GeneratorExp(self, node, fr):
        return self.B.listcomp(self, node, fr)

    def e_Call(self, node, fr):
        # logging is dropped (extraction rule): log.debug/info/warning/error/exception, self._log.*
        if self.B.is_logging_call(node):
            return VNONE
        if isinstance(node.func, ast.Name) and node.func.id in ('old', 'pre') and self.pure:
            return self.special_old_pre(node, fr)
        if isinstance(node.func, ast.Name) and node.func.id == 'implies' and self.pure and len(node.args) == 2:
            # implies(a, b) with a statically false: b is not evaluated (it may not even type-check for this instance)
            a = self.truth(self.eval(node.args[0], fr))
            if z3.is_false(z3.simplify(a)):
                return vbool(True)
            return vbool(z3.Implies(a, self.truth(self.eval(node.args[1], fr))))
        fobj = self.eval(node.func, fr)
        args = []
        for a in node.args:
            if isinstance(a, ast.Starred):
                sv = self.eval(a.value, fr)
                if isinstance(sv, V) and sv.ty[0] == 'tuple':
                    args.extend(T.tuple_items(sv))
                else:
                    args.append(('*', sv))
            else:
                args.append(self.eval(a, fr))
        kwargs = {}
        for kw in node.keywords:
            if kw.arg is None:
                raise Unsupported('**kwargs call')
            kwargs[kw.arg] = self.eval(kw.value, fr)
        return self.call(fobj, args, kwargs, fr, node)

    def trace_event(self, kind, ref, label, args=()):
        if self.st.trace is None:
            self.st.trace = []
        self.st.trace.append((kind, ref, label, tuple(args)))

    def special_old_pre(self, node, fr):
        arg = node.args[0]
        if node.func.id == 'old':
            if isinstance(arg, ast.Name):
                f = fr
                while f is not None:
                    if 'old_' + arg.id in f.ghost:
                        return f.ghost['old_' + arg.id]
                    f = f.parent
                raise Unsupported('old(%s): no entry value recorded' % arg.id)
            # old(self.field)
            return self.B.old_expr(self, arg, fr)
        if not isinstance(arg, ast.Name):
            raise Unsupported('pre() takes a plain name')
        f = fr
        while f is not None:
            if f.loop_pre:
                d = f.loop_pre[-1]
                key = '__yielded__' if arg.id == 'yielded' else arg.id
                if key in d:
                    return d[key]
            f = f.parent
        raise Unsupported('pre(%s): not inside a loop' % arg.id)

    def contract_for_frame(self, fr):
        f = fr
        while f is not None and f.func is None:
            f = f.parent
        if f is None:
            return self.contract
        return CONTRACTS.get(f.func.qualname, self.contract if f.func is self.unit_func else None)

    def havoc_heap_for_loop(self, s, fr, spec):
        return self.B.havoc_heap_for_loop(self, s, fr, spec)

    def construct_object(self, ci, args, kwargs, fr, node):
        return self.B.construct_object(self, ci, args, kwargs, fr, node)

    def eval_class_const(self, ci, attr):
        fr = Frame(None)
        # earlier class-level names are visible to later class-level expressions
        for nm, val in ci.assigns.items():
            if nm == attr:
                break
            if isinstance(val, ast.Constant):
                fr.vars[nm] = self.eval(val, fr)
        return self.eval(ci.assigns[attr], fr)

    def drain_term(self, g, c):
        """the item sequence a generator value produces when drained: an uninterpreted function of its arguments
        (so the contract text `drain(mkgen(...))` and an executed `for x in gen` talk about the same term)"""
        lty = ('list', c.item_ty)
        f = UF('drain_' + T.mangle(g.ty), T.sort_of(g.ty), T.sort_of(lty))
        return V(lty, f(g.t))

    def drain_gen(self, g, fr):
        """Iterating a generator value whose producer is under contract: (items, after_exit)."""
        qn = g.ty[1]
        c = CONTRACTS.get(qn)
        if c is None:
            raise Unsupported('generator %s has no contract' % qn)
        fi = None
        try:
            fi = self.repo.func(qn)
        except KeyError:
            pass
        fr_c = Frame(fi)
        args = T.tuple_items(V(('tuple', tuple(g.ty[2])), g.t))
        names = [p[0] for p in c.params] + [n for n in c.closure_env if c.closure_env[n] != 'closure']
        for pn, a in zip(names, args):
            fr_c.vars[pn] = a
        outcomes = [('ok', None)]
        must = []
        for exc_name, cond in c.raises.items():
            iff = False
            if isinstance(cond, str) and cond.startswith('iff:'):
                iff, cond = True, cond[4:]
            cz = self.pure_bool(cond, fr_c)
            if iff:
                must.append(cz)
            outcomes.append((exc_name, cz))
        ok_cond = z3.And([z3.Not(m) for m in must]) if must else z3.BoolVal(True)
        conds = [ok_cond] + [o[1] for o in outcomes[1:]]
        idx = self.choose(conds) if len(conds) > 1 else 0
        if len(conds) == 1:
            self.assume(ok_cond)
        items = self.drain_term(g, c)
        fr_c.ghost['result'] = items
        fr_c.ghost['yielded'] = items
        if idx == 0:
            for name, e in c.ensures.items():
                self.assume(self.pure_bool(e, fr_c))
            return items, None
        exc_name = outcomes[idx][0].split('[')[0]
        for e in c.extra.get('partial', {}).values():
            if isinstance(e, tuple):
                if not self.exc.issub(exc_name, e[0]):
                    continue
                e = e[1]
            self.assume(self.pure_bool(e, fr_c))

        def after():
            raise PyRaise(exc_name, msg='raised while draining %s' % qn)
        return items, after

    # ------------------------------------------------------------------ calls
    def call(self, fobj, args, kwargs, fr, node=None):
        if not isinstance(fobj, PyObj):
            if isinstance(fobj, V) and fobj.ty[0] == 'fn':
                return self.B.call_fn_value(self, fobj, args, kwargs, fr, node)
            if isinstance(fobj, V) and fobj.ty[0] == 'ref':
                from . import heapglue
                return heapglue.call_ext_method(self, fobj, '__call__', args, kwargs, fr, node)
            raise Unsupported('call of a %s value' % (fobj.ty,))
        k = fobj.kind
        if k == 'builtin':
            return fobj.payload(self, args, kwargs, fr, node)
        if k == 'spec':
            return self.specs.call(self, fobj.payload, args, kwargs)
        if k == 'type':
            return self.B.type_call(self, fobj.payload, args, kwargs, fr, node)
        if k == 'method':
            return self.B.call_method(self, fobj, args, kwargs, fr, node)
        if k == 'class':
            return self.B.construct(self, fobj.payload, args, kwargs, fr, node)
        if k == 'excclass':
            return self.B.make_exc(self, fobj.payload, args, kwargs)
        if k in ('func', 'closure', 'bound'):
            return self.call_repo_func(fobj, args, kwargs, fr, node)
        if k == 'lambda':
            return self.call_lambda(fobj, args, kwargs)
        if k == 'extmethod':
            from . import heapglue
            ref, attr = fobj.payload
            return heapglue.call_ext_method(self, ref, attr, args, kwargs, fr, node)
        if k == 'partial':
            f, pa, pk = fobj.payload
            kw = dict(pk)
            kw.update(kwargs)
            return self.call(f, list(pa) + list(args), kw, fr, node)
        if k == 'extern':
            h = self.B.EXTERN.get(fobj.payload)
            if h is not None:
                return h(self, args, kwargs, fr, node)
            raise Unsupported('call of external %s' % fobj.payload)
        raise Unsupported('call of %r' % fobj)

    def call_lambda(self, fobj, args, kwargs):
        node, lfr = fobj.payload, fobj.extra
        fr2 = Frame(None, parent=lfr)
        fr2.func = None
        params = [a.arg for a in node.args.args]
        for p, a in zip(params, args):
            fr2.vars[p] = a
        if len(args) < len(params):
            dflts = node.args.defaults
            for p, d in zip(params[len(params) - len(dflts):], dflts):
                if p not in fr2.vars:
                    fr2.vars[p] = self.eval(d, lfr)
        return self.eval(node.body, fr2)

    def bind_args(self, params, args, kwargs, self_val=None, defaults_frame=None):
        """params: [(name, ty, default_ast)] -> {name: V} (coerced)."""
        out = {}
        args = list(args)
        names = [p[0] for p in params]
        for (name, ty, dflt) in params:
            if args:
                v = args.pop(0)
            elif name in kwargs:
                v = kwargs.pop(name)
            elif dflt is not None:
                saved = self.pure
                v = self.eval(dflt, defaults_frame)
            else:
                raise Unsupported('missing argument %s' % name)
            if isinstance(v, V):
                if v.ty[0] == 'opt' and ty[0] != 'opt' and ty != ANY and T.coercible(v.ty[1], ty) and not self.pure:
                    # None passed where a value is required: the callee fails on first use (TypeError);
                    # a generator function runs nothing at the call, so there the failure is deferred (underspecified)
                    if not getattr(self, '_lazy_bind', False):
                        self.prove_internal('None passed for %s' % name, z3.Not(T.is_none(v)), 'TypeError')
                    v = T.opt_val(v)
                try:
                    if ty != ANY:
                        v = T.coerce(v, ty)
                except T.TypeMismatch as e:
                    raise Unsupported('argument %s: %s' % (name, e))
            out[name] = v
        if args or kwargs:
            raise Unsupported('too many arguments (%s)' % names)
        return out

    def call_repo_func(self, fobj, args, kwargs, fr, node):
        fi = fobj.payload
        qn = fi.qualname
        c = CONTRACTS.get(qn)
        if fobj.kind == 'bound' and fobj.extra is not None and not fi.is_classmethod and not fi.is_staticmethod:
            args = [fobj.extra] + list(args)
        if c is None:
            raise Unsupported('call of %s which has no contract' % qn)
        if c.extra.get('method') and not (c.inline or c.extra.get('inline_at_calls')):
            return self.B.apply_method_contract(self, fi, c, args, kwargs, node)
        if c.inline or c.extra.get('inline_at_calls'):
            return self.inline_call(fi, c, fobj, args, kwargs)
        return self.apply_contract(fi, c, args, kwargs, node,
                                   closure_frame=fobj.extra if fobj.kind == 'closure' else None)

    def inline_call(self, fi, c, fobj, args, kwargs):
        fr2 = Frame(fi, parent=fobj.extra if fobj.kind == 'closure' else None)
        a = fi.node.args
        params = [x.arg for x in a.args]
        if fi.is_classmethod:
            fr2.vars[params[0]] = PyObj('class', fi.module.classes[fi.cls])
            params = params[1:]
        dflts = [None] * (len(params) - len(a.defaults)) + list(a.defaults)
        bound = self.bind_args([(p, ANY, d) for p, d in zip(params, dflts)], args, kwargs, defaults_frame=fr2)
        # ANY-coercion must not lose values here: rebind raw
        raw = list(args)
        for p, d in zip(params, dflts):
            if raw:
                fr2.vars[p] = raw.pop(0)
            elif p in bound:
                fr2.vars[p] = bound[p]
        try:
            self.exec_block(fi.node.body, fr2)
        except _Return as r:
            return r.v
        return VNONE

    def apply_contract(self, fi, c, args, kwargs, node, site=None, closure_frame=None):
        """Modular call: assert requires, pick an outcome, assume ensures."""
        if fi is not None and not self.pure:
            # (the call itself is counted below under the callee's short name; this key only numbers the checkpoint)
            key_ = 'cp:' + fi.qualname.replace('.', '/')
            self.callcount[key_] = self.callcount.get(key_, 0) + 1
            self.B.checkpoint(self, 'call:%s#%d' % (fi.node.name, self.callcount[key_]))
        fr_c = Frame(fi)
        self._lazy_bind = bool((fi is not None and fi.is_generator and not fi.is_inline_callbacks) or c.kind == 'generator')
        if c.closure_env and closure_frame is not None:
            # free variables of the closure, read from its defining frame at the call
            for name, tys in c.closure_env.items():
                if tys == 'closure':
                    continue
                v = closure_frame.lookup(name)
                if v is None:
                    raise Unsupported('closure variable %s is not bound at the call of %s' % (name, c.qualname))
                fr_c.vars[name] = T.coerce(v, T.parse_ty(tys)) if isinstance(v, V) else v
        try:
            bound = self.bind_args(c.params, args, dict(kwargs), defaults_frame=fr_c)
        finally:
            self._lazy_bind = False
        if c.extra.get('poly'):
            # parameters declared polymorphic keep the caller's static type (the unit itself is verified once per
            # `type_instances` entry); anything else is outside the contract
            raw = dict(zip([p[0] for p in c.params], args))
            raw.update(kwargs)
            allowed = [T.parse_ty(t[pn]) for t in c.extra.get('type_instances', {}).values() for pn in t]
            for pn in c.extra['poly']:
                if pn in raw and isinstance(raw[pn], V):
                    if raw[pn].ty not in allowed:
                        raise Unsupported('%s called with %s of type %s (no such type instance)' % (c.qualname, pn, raw[pn].ty))
                    bound[pn] = raw[pn]
        fr_c.vars.update(bound)
        fr_c.vars.update({'p_' + k_: v_ for k_, v_ in bound.items()})
        nm = (fi.qualname if fi else c.qualname).split('afkak.')[-1]
        self.callcount[nm] = self.callcount.get(nm, 0) + 1
        siteid = '%s#%d' % (nm, self.callcount[nm])
        if fi is not None and fi.is_generator or c.kind == 'generator':
            # calling a generator function runs nothing: build the lazy generator value
            if c.requires:
                for i, r in enumerate(c.requires):
                    self.prove('pre@%s.%d' % (siteid, i + 1), self.pure_bool(r, fr_c), kind='pre')
            envn = [n for n in c.closure_env if c.closure_env[n] != 'closure']
            gty = ('gen', c.qualname, tuple(p[1] for p in c.params) + tuple(T.parse_ty(c.closure_env[n]) for n in envn))
            return V(gty, T.mk_tuple([bound[p[0]] for p in c.params] + [fr_c.vars[n] for n in envn]).t)
        self.forall_mode = 'prove'
        try:
            for i, r in enumerate(c.requires):
                self.prove('pre@%s.%d' % (siteid, i + 1), self.pure_bool(r, fr_c), kind='pre')
        finally:
            self.forall_mode = 'assume'
        outcomes = [('ok', None)]
        conds = []
        must = []
        for exc_name, cond in c.raises.items():
            iff = False
            if isinstance(cond, str) and cond.startswith('iff:'):
                iff, cond = True, cond[4:]
            cz = self.pure_bool(cond, fr_c)
            if iff:
                must.append(cz)
            outcomes.append((exc_name, cz))
        ok_cond = z3.And([z3.Not(m) for m in must]) if must else z3.BoolVal(True)
        conds = [ok_cond] + [o[1] for o in outcomes[1:]]
        idx = self.choose(conds) if len(conds) > 1 else 0
        if len(conds) == 1:
            self.assume(ok_cond)
        if idx > 0:
            raise PyRaise(outcomes[idx][0].split('[')[0], msg='raised by %s' % c.qualname)
        ret_ty = c.extra['dep_ret'](self, bound) if 'dep_ret' in c.extra else c.ret_ty
        res = self.fresh(ret_ty, 'r_' + nm.split('.')[-1]) if ret_ty != NONE else VNONE
        fr_c.ghost['result'] = res
        if c.extra.get('external_effect'):
            # the callee hands control to foreign code (fires caller Deferreds ...)
            from . import heap as H
            H.external_call(self, 'call of ' + nm)
        for name, e in c.ensures.items():
            if any(k_ in e for k_ in ('n_events(', 'event_arg(', 'event_ref(', 'n_calls(', 'n_added(', 'events(', 'added_index(')):
                continue          # clauses about the callee's own activation trace say nothing in the caller's trace
            self.assume(self.pure_bool(e, fr_c))
        self.B.effects_of_call(self, c, fr_c)
        return res

    # ------------------------------------------------------------------ pure evaluation of contract text
    def pure_expr(self, src, fr):
        node = src if isinstance(src, ast.AST) else _parse_expr(src)
        saved = self.pure
        self.pure = True
        try:
            return self.eval(node, fr)
        finally:
            self.pure = saved

    def pure_bool(self, src, fr):
        v = self.pure_expr(src, fr)
        t = self.truth(v) if not z3.is_bool(getattr(v, 't', None)) else v.t
        st = z3.simplify(t)
        if z3.is_true(st) or z3.is_false(st):
            return st
        return t

    # ------------------------------------------------------------------ statements
    def exec_block(self, stmts, fr):
        for s in stmts:
            self.exec_stmt(s, fr)

    def exec_stmt(self, s, fr):
        self.cur_frame = fr
        self.cur_node = s
        m = getattr(self, 's_' + type(s).__name__, None)
        if m is None:
            raise Unsupported('statement %s' % type(s).__name__)
        return m(s, fr)

    def s_Pass(self, s, fr):
        pass

    def s_Expr(self, s, fr):
        if isinstance(s.value, ast.Constant):
            return   # docstring
        if isinstance(s.value, ast.Yield):
            return self.do_yield(s.value, fr)
        self.eval(s.value, fr)

    def do_yield(self, node, fr):
        if self.unit_kind == 'generator':
            v = self.eval(node.value, fr) if node.value is not None else VNONE
            try:
                item = T.coerce(v, self.contract.item_ty)
            except T.TypeMismatch as e:
                self.prove('type.yield', z3.BoolVal(False), kind='type', note=str(e))
                raise PathEnd()
            self.st.yielded = V(self.st.yielded.ty, self.B.concat(self.st.yielded.t, z3.Unit(item.t)))
            self.B.on_yield(self, item, fr)
            return VNONE
        return self.B.icb_yield(self, node, fr)

    def e_Yield(self, node, fr):
        return self.do_yield(node, fr)

    def s_Assign(self, s, fr):
        if isinstance(s.value, ast.Tuple) and len(s.targets) == 1 and isinstance(s.targets[0], ast.Tuple) \
                and len(s.targets[0].elts) == len(s.value.elts) \
                and not any(isinstance(e, ast.Starred) for e in s.value.elts + s.targets[0].elts):
            # parallel assignment a, b = x, y: evaluate the right-hand sides first, then bind (no tuple is built)
            vals = [self.eval(e, fr) for e in s.value.elts]
            for t, v in zip(s.targets[0].elts, vals):
                self.assign(t, v, fr)
            return
        v = None
        if isinstance(s.value, ast.List) and s.value.elts and len(s.targets) == 1 and isinstance(s.targets[0], ast.Name):
            # a list literal assigned to a local whose element type the sidecar declares: each element is taken at that
            # type (an Optional element must be non-None here - it is, when the literal sits behind the test for it)
            c = self.contract_for_frame(fr)
            lt = (c.extra.get('locals', {}) if c is not None else {}).get(s.targets[0].id)
            lty = T.parse_ty(lt) if lt is not None else None
            if lty is not None and lty[0] == 'list':
                items = []
                for e in s.value.elts:
                    x = self.val(self.eval(e, fr))
                    if isinstance(x, V) and x.ty[0] == 'opt' and lty[1][0] != 'opt':
                        if not self.branch(z3.Not(T.is_none(x))):
                            raise Unsupported('None stored in %s, declared %s' % (s.targets[0].id, lt))
                        x = T.opt_val(x)
                    items.append(T.coerce(x, lty[1]))
                units = [z3.Unit(i.t) for i in items]
                v = V(lty, units[0] if len(units) == 1 else z3.Concat(*units))
        if v is None:
            v = self.eval(s.value, fr)
        for tgt in s.targets:
            self.assign(tgt, v, fr)

    def s_AnnAssign(self, s, fr):
        if s.value is not None:
            self.assign(s.target, self.eval(s.value, fr), fr)

    def s_AugAssign(self, s, fr):
        cur = self.eval(_load(s.target), fr)
        v = self.eval(s.value, fr)
        self.assign(s.target, self.binop(s.op, cur, v), fr)

    def assign(self, tgt, v, fr):
        if isinstance(tgt, ast.Name) and isinstance(v, PyObj) and v.kind == 'defaultdict_list':
            c = self.contract_for_frame(fr)
            lt = (c.extra.get('locals', {}) if c is not None else {}).get(tgt.id)
            lty = T.parse_ty(lt) if lt is not None else None
            if lty is None or lty[0] != 'dict':
                raise Unsupported('defaultdict(list) bound to %s without a Dict[...] type in the contract locals' % tgt.id)
            fr.assign(tgt.id, T.empty_dict(lty))
            # declared with other values than lists (the code only ever stores into it): reading a missing key is unsupported
            fr.ghost.setdefault('defaultdicts' if lty[2][0] == 'list' else 'defaultdicts_store_only', set()).add(tgt.id)
            return
        if isinstance(tgt, ast.Name):
            if isinstance(v, V) and v.ty[0] in ('list', 'dict') and v.ty[1] == ANY:
                # an empty literal gets its element type from the sidecar's `locals` declaration
                c = self.contract_for_frame(fr)
                lt = (c.extra.get('locals', {}) if c is not None else {}).get(tgt.id)
                if lt is not None:
                    v = T.coerce(v, T.parse_ty(lt))
            elif isinstance(v, V) and v.ty == ANY:
                # an untyped value (what a Deferred fired with, the result of an external call) bound to a local the
                # sidecar declares: taken at the declared type, otherwise unconstrained (a typing assumption)
                c = self.contract_for_frame(fr)
                lt = (c.extra.get('locals', {}) if c is not None else {}).get(tgt.id)
                if lt is not None:
                    v = self.fresh(T.parse_ty(lt), tgt.id)
            fr.assign(tgt.id, v)
            return
        if isinstance(tgt, (ast.Tuple, ast.List)):
            items = self.unpack(v, len(tgt.elts))
            for t, x in zip(tgt.elts, items):
                self.assign(t, x, fr)
            return
        if isinstance(tgt, ast.Attribute):
            base = self.eval(tgt.value, fr)
            if isinstance(base, V) and base.ty[0] == 'ref':
                return self.heap_write(base, tgt.attr, v)
            if isinstance(base, V) and base.ty[0] == 'opt' and base.ty[1][0] == 'ref':
                self.prove_internal('attribute of None', z3.Not(T.is_none(base)), 'AttributeError')
                return self.heap_write(T.opt_val(base), tgt.attr, v)
            raise Unsupported('attribute assignment on %s' % (getattr(base, 'ty', base),))
        if isinstance(tgt, ast.Subscript):
            base = self.eval(tgt.value, fr)
            key = self.eval(tgt.slice, fr)
            newbase = self.B.setitem(self, base, key, v)
            self.assign(tgt.value, newbase, fr)
            return
        raise Unsupported('assignment target %s' % type(tgt).__name__)

    def unpack(self, v, n):
        if isinstance(v, PyObj):
            raise Unsupported('unpacking %r' % v)
        if v.ty[0] == 'tuple':
            items = T.tuple_items(v)
            if len(items) != n:
                raise PyRaise('ValueError', msg='unpack %d values into %d targets' % (len(items), n))
            return items
        if v.ty[0] == 'struct':
            fields = T.STRUCTS[v.ty[1]]
            if len(fields) != n:
                raise PyRaise('ValueError', msg='unpack struct of %d into %d' % (len(fields), n))
            return [T.struct_field(v, f) for f, _, _ in fields]
        if v.ty[0] == 'list':
            self.prove_internal('unpack length', z3.Length(v.t) == n, 'ValueError')
            return [V(v.ty[1], v.t[i]) for i in range(n)]
        raise Unsupported('unpacking a %s' % (v.ty,))

    def s_Return(self, s, fr):
        v = self.eval(s.value, fr) if s.value is not None else VNONE
        self.stmt_checkpoint(s, fr, 'return')
        raise _Return(v)

    def stmt_checkpoint(self, s, fr, kind):
        """contract clauses anchored at the k-th `return` / `raise` statement of the unit's own body (source order)"""
        c = self.contract
        if c is None or not c.extra.get('checkpoints') or self.unit_func is None or getattr(fr, 'func', None) is not self.unit_func:
            return
        if not any(k.startswith(kind + '#') for k in c.extra['checkpoints']):
            return
        cache = self.__dict__.setdefault('_stmt_ord', {})
        key = (id(self.unit_func.node), kind)
        if key not in cache:
            nodes = []
            stack = list(reversed(self.unit_func.node.body))
            while stack:
                n = stack.pop()
                if isinstance(n, (ast.FunctionDef, ast.AsyncFunctionDef, ast.Lambda, ast.ClassDef)):
                    continue
                if isinstance(n, {'return': ast.Return, 'raise': ast.Raise, 'continue': ast.Continue}[kind]):
                    nodes.append(n)
                stack.extend(reversed(list(ast.iter_child_nodes(n))))
            nodes.sort(key=lambda n: (n.lineno, n.col_offset))
            cache[key] = {id(n): i + 1 for i, n in enumerate(nodes)}
        k = cache[key].get(id(s))
        if k is not None:
            saved = getattr(self, 'cur_frame', None)
            self.cur_frame = fr
            try:
                self.B.checkpoint(self, '%s#%d' % (kind, k))
            finally:
                self.cur_frame = saved

    def s_If(self, s, fr):
        c = self.truth(self.eval(s.test, fr))
        if self.branch(c):
            self.exec_block(s.body, fr)
        else:
            self.exec_block(s.orelse, fr)

    def s_Assert(self, s, fr):
        c = self.truth(self.eval(s.test, fr))
        if not self.branch(c):
            raise PyRaise('AssertionError', msg='assert')

    def s_Raise(self, s, fr):
        self.stmt_checkpoint(s, fr, 'raise')
        if s.exc is None:
            if self.cur_exc is None:
                raise Unsupported('bare raise outside handler')
            raise self.cur_exc
        v = self.eval(s.exc, fr)
        if isinstance(v, PyObj) and v.kind == 'excclass':
            raise PyRaise(v.payload)
        if isinstance(v, V) and v.ty[0] == 'exc':
            raise PyRaise(v.ty[1], val=v)
        raise Unsupported('raise of %r' % (v,))

    def s_Try(self, s, fr):
        try:
            self._try_body(s, fr)
        except (PyRaise, _Return, _Break, _Continue):
            if s.finalbody:
                self.exec_block(s.finalbody, fr)
            raise
        if s.finalbody:
            self.exec_block(s.finalbody, fr)

    def _try_body(self, s, fr):
        try:
            self.exec_block(s.body, fr)
        except PyRaise as e:
            for h in s.handlers:
                if self.handler_matches(h, e, fr):
                    # ghost: "an `except <Class>` clause of this activation caught something" - n_events('Handled:<Class>')
                    if h.type is not None and not self.pure:
                        t0 = h.type.elts[0] if isinstance(h.type, ast.Tuple) else h.type
                        self.trace_event('Handled:' + ast.unparse(t0).split('.')[-1], None, e.cls)
                    if h.name:
                        if self.contract is not None and self.contract.extra.get('exceptions_as_bare_failures'):
                            # the exception instance travels on as data where a Failure may also travel (a list of
                            # (payload, error) pairs): same representation as a Failure, with the ghost `bare` set
                            from . import heap as H_
                            fr.assign(h.name, H_.alloc(self, 'Failure', {'exc_tag': vint(self.exc.tag(e.cls)),
                                                                         'bare': vbool(True)}))
                        else:
                            fr.assign(h.name, self.exc_value(e))
                    saved = self.cur_exc
                    self.cur_exc = e
                    try:
                        self.exec_block(h.body, fr)
                    finally:
                        self.cur_exc = saved
                    return
            raise
        else:
            self.exec_block(s.orelse, fr)

    def exc_value(self, e):
        if e.val is not None:
            return e.val
        ty = ('exc', e.cls)
        return V(ty, T.exc_sort().constructor(0)(z3.IntVal(self.exc.tag(e.cls)), self.fresh(INT, 'excid').t))

    def handler_matches(self, h, e, fr):
        if h.type is None:
            return True
        names = []
        t = h.type
        elts = t.elts if isinstance(t, ast.Tuple) else [t]
        for x in elts:
            o = self.eval(x, fr)
            if isinstance(o, PyObj) and o.kind == 'excclass':
                names.append(o.payload)
            elif isinstance(o, PyObj) and o.kind == 'class' and getattr(o.payload, 'bases', None) and \
                    (o.payload.bases[0] in self.exc.parent or o.payload.bases[0] == 'Exception'):
                # an exception class defined next to the code (not in afkak/common.py): registered under its own name
                self.exc.parent.setdefault(o.payload.name, o.payload.bases[0])
                names.append(o.payload.name)
            else:
                raise Unsupported('except clause type %r' % (o,))
        if getattr(e, 'unknown', False) and not any(self.exc.issub('Exception', n) for n in names):
            if self.branch(self.fresh(BOOL, 'delivered_exc_is_' + names[0]).t):
                e.cls, e.unknown = names[0], False
                return True
            return False
        return any(self.exc.issub(e.cls, n) for n in names)

    def s_FunctionDef(self, s, fr):
        fi = fr.func.nested.get(s.name) if fr.func is not None else None
        if fi is None or fi.node is not s:
            # locate by node identity
            fi = None
            f = fr.func
            if f is not None:
                for cand in f.nested.values():
                    if cand.node is s:
                        fi = cand
            if fi is None:
                raise Unsupported('nested def %s not indexed' % s.name)
        fr.assign(s.name, PyObj('closure', fi, fr))

    def s_Nonlocal(self, s, fr):
        fr.nonlocals.update(s.names)

    def s_Global(self, s, fr):
        raise Unsupported('global statement')

    def s_Delete(self, s, fr):
        for tgt in s.targets:
            if isinstance(tgt, ast.Subscript):
                base = self.eval(tgt.value, fr)
                key = self.eval(tgt.slice, fr)
                li = self.st.ghost.get('live_iter')
                if li is not None and isinstance(base, V):
                    from . import heapglue
                    prov = heapglue.table_prov(self, base)
                    if prov is not None and (prov[0].t.get_id(), prov[1]) == li:
                        self.st.ghost['live_iter_mutated'] = True
                self.assign(tgt.value, self.B.delitem(self, base, key), fr)
            else:
                raise Unsupported('del of %s' % type(tgt).__name__)

    def s_Break(self, s, fr):
        raise _Break()

    def s_Continue(self, s, fr):
        self.stmt_checkpoint(s, fr, 'continue')
        raise _Continue()

    def s_For(self, s, fr):
        from . import loops
        return loops.exec_for(self, s, fr)

    def s_While(self, s, fr):
        from . import loops
        return loops.exec_while(self, s, fr)

    def s_With(self, s, fr):
        raise Unsupported('with statement')

    # ------------------------------------------------------------------ heap (objects with mutable fields)
    def heap_read(self, ref, field):
        return self.B.heap_read(self, ref, field)

    def heap_write(self, ref, field, v):
        return self.B.heap_write(self, ref, field, v)


def _parse_expr(src):
    return ast.parse(src.strip(), mode='eval').body


def _load(tgt):
    import copy
    t = copy.deepcopy(tgt)
    for n in ast.walk(t):
        if hasattr(n, 'ctx'):
            n.ctx = ast.Load()
    return t
