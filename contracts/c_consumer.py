"""afkak/consumer.py: Consumer.  C14 (retry delays / reset policy / buffer growth), C03 (commits never ahead),
C13 (stop leaves nothing running), C02 (delivery order, one request / one block at a time)."""
from pyvc.contracts import contract
from pyvc.heap import klass
from . import c_brokerclient  # noqa  (Reactor etc.)

C = "afkak.consumer.Consumer."


@klass("ext.ClientAPI")
class _:
    external = True
    fields = {"reactor": ("Ref_Reactor", False)}
    methods = {"send_fetch_request": dict(ret="Deferred?", trace="FetchRequest"),
               "send_offset_request": dict(ret="Deferred?", trace="OffsetRequest"),
               "send_offset_fetch_request": dict(ret="Deferred?", trace="OffsetFetchRequest"),
               "send_offset_commit_request": dict(ret="Deferred?", trace="CommitRequest")}


@klass("ext.Processor")
class _:
    external = True
    fields = {}
    methods = {"__call__": dict(ret="Deferred?", reentrant=True, trace="Invoked")}


DFIELDS = ["_shutdown_d", "_commit_looper_d", "_commit_req", "_start_d", "_request_d", "_msg_block_d", "_processor_d"]
DISTINCT = " and ".join("(self.%s is None or self.%s is None or self.%s != self.%s)" % (a, b, a, b)
                        for i, a in enumerate(DFIELDS) for b in DFIELDS[i + 1:])


@klass("afkak.consumer.Consumer")
class _:
    props = ["C02", "C03", "C13", "C14"]
    fields = {
        "client": ("Ref_ClientAPI", False), "topic": ("str", False), "partition": ("int", False),
        "processor": ("Ref_Processor", False), "consumer_group": ("Optional[str]", False),
        "commit_metadata": ("Optional[bytes]", False), "commit_consumer_id": ("Optional[str]", False),
        "commit_generation_id": ("int", False), "auto_commit_every_n": ("Optional[int]", False),
        "auto_commit_every_s": ("Optional[float]", False), "fetch_min_bytes": ("int", False),
        "fetch_max_wait_time": ("int", False), "buffer_size": "int", "max_buffer_size": ("Optional[int]", False),
        "retry_delay": "float", "retry_init_delay": ("float", False), "retry_max_delay": ("float", False),
        "request_retry_max_attempts": "int", "_fetch_attempt_count": "int", "auto_offset_reset": ("Optional[int]", False),
        "_fetch_offset": "Optional[int]", "_last_processed_offset": "Optional[int]", "_last_committed_offset": "Optional[int]",
        "_stopping": "bool", "_shuttingdown": "bool", "_shutdown_d": "Optional[Ref_Deferred]",
        "_commit_looper": "Optional[Ref_LoopingCall]", "_commit_looper_d": "Optional[Ref_Deferred]",
        "_commit_ds": "List[Ref_Deferred]", "_commit_req": "Optional[Ref_Deferred]", "_start_d": "Optional[Ref_Deferred]",
        "_request_d": "Optional[Ref_Deferred]", "_retry_call": "Optional[Ref_DelayedCall]",
        "_commit_call": "Optional[Ref_DelayedCall]", "_msg_block_d": "Optional[Ref_Deferred]",
        "_processor_d": "Optional[Ref_Deferred]", "_state": "str",
    }
    rely = {
        # while stop() is cancelling things, nothing else ends the run or clears the stopping flag (a nested stop() returns)
        "stopping-is-exclusive": "implies(old(self._stopping), self._stopping and self._start_d == old(self._start_d))",
        # timers fire from the reactor only; code running during an excursion either leaves a pending timer alone or clears the field
        "retry-timer-stays-pending": "implies(old(self._stopping) and old(self._retry_call is None or active(self._retry_call)), "
                                     "self._retry_call is None or active(self._retry_call))",
        "commit-request-not-replaced-while-stopping": "implies(old(self._stopping), self._commit_req is None or self._commit_req == old(self._commit_req))",
        "no-new-request-while-stopping": "implies(old(self._stopping) and old(self._request_d is None), self._request_d is None)",
        "commit-timer-stays-pending": "implies(old(self._stopping) and old(self._commit_call is None or active(self._commit_call)), "
                                      "self._commit_call is None or active(self._commit_call))",
        # once stop() has cancelled the processor's Deferred / the retry timer, nothing running during a later cancellation
        # starts the processor again or schedules a new retry
        "processor-not-replaced-while-stopping": "implies(old(self._stopping), self._processor_d is None or self._processor_d == old(self._processor_d))",
        # nothing running during one of stop()'s cancellations starts an auto-commit looper
        "looper-not-restarted-while-stopping": "implies(old(self._stopping) and old(self._commit_looper is None or not running(self._commit_looper)), "
                                               "self._commit_looper is None or not running(self._commit_looper))",
        "retry-not-replaced-while-stopping": "implies(old(self._stopping), self._retry_call is None or self._retry_call == old(self._retry_call))",
    }
    invariant = {
        # C13: timers referenced by the consumer are pending ones (a fired / cancelled timer is not kept)
        "retry-live": "self._start_d is None or self._stopping or self._retry_call is None or active(self._retry_call)",
        # (also while stopped: a cancelled timer kept across stop() would be cancelled a second time by the stop() that
        # follows a restart - defect 20e304a)
        "commit-call-live": "self._stopping or self._commit_call is None or active(self._commit_call)",
        "stopping-implies-started": "not self._stopping or self._start_d is not None",
        # Deferreds of different roles are different objects (each is created fresh for its role)
        "deferred-roles-apart": DISTINCT,
        # C03: at most one commit in flight: an outstanding request always has someone waiting for it
        "commit-slot": "self._commit_req is None or not called(self._commit_req)",
        "commit-has-waiter": "self._stopping or self._commit_req is None or len(self._commit_ds) > 0",
        "timers-apart": "self._retry_call is None or self._commit_call is None or self._retry_call != self._commit_call",
        "idle-when-stopped": "self._start_d is not None or self._request_d is None",
        "roles-apart": "(self._msg_block_d is None or ((self._start_d is None or self._start_d != self._msg_block_d) and "
                       "(self._shutdown_d is None or self._shutdown_d != self._msg_block_d)))",
        "looper-running": "self._commit_looper is None or running(self._commit_looper)",
        # C02: the block Deferred stands for "a block of messages is being processed": it is unfired while set
        "block-slot": "self._msg_block_d is None or not called(self._msg_block_d)",
        "config": "0 < self.retry_init_delay and self.retry_init_delay <= self.retry_max_delay and 0 <= self.request_retry_max_attempts "
                  "and self.buffer_size > 0 and (self.max_buffer_size is None or self.max_buffer_size > 0) "
                  "and (self.auto_commit_every_n is None or self.auto_commit_every_n >= 0)",
        # C14: the current delay stays between the initial and the maximum delay
        "delay-range": "self.retry_init_delay <= self.retry_delay and self.retry_delay <= self.retry_max_delay",
        "attempts-positive": "self._fetch_attempt_count >= 1",
        # C03: the recorded committed offset never exceeds the processed one once something was processed
    }


SELF = "self: Ref_Consumer"
# _do_fetch attaches handlers to a Deferred that may already have fired (a closed client fails at once): they run synchronously
# and may change any consumer state - the frame callers may rely on is the whole consumer (checked at the unit's exit)
FETCH_FRAME = ["Consumer.*", "Deferred.*", "DelayedCall.*", "LoopingCall.*"]


def method(name, sig, **kw):
    d = dict(sig=sig, props=kw.pop('props', ["C14"]), method=True, entry_point=True)
    d.update(kw)
    contract(C + name)(type('_', (), d))


# ---- C14 -------------------------------------------------------------------------------------------------
method("_retry_fetch", "(%s, after: Optional[float] = None) -> None" % SELF,
       ensures={
           "schedules[C14]": "implies(not old(self._stopping) and not old(self._shuttingdown) and old(self._start_d) is not None "
                             "and old(self._retry_call) is None, "
                             "self._retry_call is not None and active(self._retry_call) and n_events('Timer') == 1 "
                             "and event_arg('Timer', 0, 0) == ite(after is None, old(self.retry_delay), after) "
                             "and self._fetch_attempt_count == old(self._fetch_attempt_count) + 1)",
           "backoff[C14]": "implies(not old(self._stopping) and not old(self._shuttingdown) and old(self._start_d) is not None "
                           "and old(self._retry_call) is None and after is None, "
                           "self.retry_delay == min(old(self.retry_delay) * 1.20205, self.retry_max_delay))",
           "no-second-timer[C14,C02]": "implies(old(self._retry_call) is not None or old(self._stopping) or old(self._shuttingdown) "
                                       "or old(self._start_d) is None, n_events('Timer') == 0 and self.retry_delay == old(self.retry_delay))",
       })

method("_do_fetch", "(%s) -> None" % SELF, props=["C02", "C14"],
       modifies=FETCH_FRAME, inv_exempt_at_entry=["retry-live"],
       requires=["self._start_d is not None", "self._fetch_offset is not None", "not self._stopping",
                 "self._request_d is None or self._retry_call is None or active(self._retry_call)",
                 "self._fetch_offset != -101 or self.consumer_group"],
       ensures={"one-request[C02]": "implies(old(self._request_d) is not None, n_events('FetchRequest') + n_events('OffsetRequest') "
                                    "+ n_events('OffsetFetchRequest') == 0)",
                # C02: with nothing outstanding exactly one request goes out, of the kind the position calls for (an offset
                # lookup for earliest/latest, the committed-offset lookup, else a fetch) ...
                "request-matches-position[C02]":
                    "implies(old(self._request_d) is None, "
                    "n_events('OffsetRequest') == ite(old(self._fetch_offset) == -1 or old(self._fetch_offset) == -2, 1, 0) and "
                    "n_events('OffsetFetchRequest') == ite(old(self._fetch_offset) == -101, 1, 0) and "
                    "n_events('FetchRequest') == ite(old(self._fetch_offset) == -1 or old(self._fetch_offset) == -2 "
                    "or old(self._fetch_offset) == -101, 0, 1))",
                # ... and its reply / failure is routed to the handlers that carry on from there (the consumer would stall otherwise)
                "reply-handlers-attached[C02]":
                    "implies(old(self._request_d) is None, "
                    "n_added('_handle_fetch_response') == n_events('FetchRequest') and n_added('_handle_fetch_error') == n_events('FetchRequest') and "
                    "n_added('_handle_offset_response') == 1 - n_events('FetchRequest') and "
                    "n_added('_handle_offset_error') == 1 - n_events('FetchRequest'))",
                # C13/C02: a retry timer that is still pending is cancelled, not just forgotten (it would fire into a later run)
                "pending-retry-cancelled[C13]": "implies(old(self._request_d) is None and old(self._retry_call) is not None and "
                                                "old(active(self._retry_call)), n_events('CancelTimer') == 1)"})

method("_handle_offset_response", "(%s, responses: List[OffsetFetchResponse]) -> None" % SELF, props=["C14", "C03", "C02"],
       poly=["responses"],
       # the same handler serves both lookups ("close enough" in the source): a committed-offset reply and a ListOffsets reply
       type_instances={"offset-fetch": {"responses": "List[OffsetFetchResponse]"}, "list-offsets": {"responses": "List[OffsetResponse]"}},
       requires=["len(responses) == 1", "self._start_d is not None", "implies(hasattr(responses[0], 'offset'), self.consumer_group)",
                 "not self._stopping", "implies(hasattr(responses[0], 'offset'), responses[0].offset >= -1)",
                 "implies(hasattr(responses[0], 'offsets'), len(responses[0].offsets) >= 1 and responses[0].offsets[0] >= 0)"],
       checkpoints={"call:_do_fetch#1": {
           "delay-reset[C14]": "self.retry_delay == self.retry_init_delay and self._fetch_attempt_count == 1",
           "request-cleared[C02]": "self._request_d is None",
           "resume-after-committed[C02, C03]": "implies(hasattr(responses[0], 'offset') and responses[0].offset != -1, "
                                          "self._fetch_offset == responses[0].offset + 1 and self._last_committed_offset == responses[0].offset)",
           "no-offset-stored[C14]": "implies(hasattr(responses[0], 'offset') and responses[0].offset == -1, "
                                    "self._fetch_offset == ite(self.auto_offset_reset == -1, -1, -2))",
           # C02 "start positions earliest / latest": the position is the offset the broker reported
           "resolved-position-is-the-reported-offset[C02]": "implies(hasattr(responses[0], 'offsets'), self._fetch_offset == responses[0].offsets[0])",
       }},
       ensures={"fetching-resumes[C02]": "n_calls('_do_fetch') == 1"})


OUTCOME_LIMIT = "(old(self.request_retry_max_attempts) != 0 and old(self._fetch_attempt_count) >= old(self.request_retry_max_attempts))"
# (Twisted's CancelledError - `t.CancelledError` - not afkak.common.CancelledError, which is a different class)
OUTCOME_BENIGN = "(old(self._stopping) and old(exc_is(failure, 't.CancelledError')))"
method("_handle_offset_error", "(%s, failure: Ref_Failure) -> None" % SELF,
       requires=["self._start_d is not None", "not called(self._start_d)"],
       # C14: exactly one outcome - nothing for our own cancellation while stopping, the failure surfaces at the attempt
       # limit, a retry is scheduled otherwise
       ensures={"one-outcome[C14]": "n_calls('_retry_fetch') == ite(%s or %s, 0, 1) and n_events('Fired') == ite(not %s and %s, 1, 0)"
                                    % (OUTCOME_BENIGN, OUTCOME_LIMIT, OUTCOME_BENIGN, OUTCOME_LIMIT)},
       checkpoints={
           "fire:errback#1": {"gives-up-only-at-limit[C14]": "self.request_retry_max_attempts != 0 and "
                                                              "self._fetch_attempt_count >= self.request_retry_max_attempts"},
           "call:_retry_fetch#1": {
               "retries-below-limit[C14]": "self.request_retry_max_attempts == 0 or self._fetch_attempt_count < self.request_retry_max_attempts",
               "request-cleared[C02]": "self._request_d is None"}})

OUTCOME_NOPOLICY = "(old(exc_is(failure, 'OffsetOutOfRangeError')) and self.auto_offset_reset is None)"
method("_handle_fetch_error", "(%s, failure: Ref_Failure) -> None" % SELF,
       requires=["self._start_d is not None", "not called(self._start_d)"],
       # C14: exactly one outcome - out of range without a reset policy surfaces at once; our own cancellation while
       # stopping is ignored; at the attempt limit the failure surfaces; otherwise one retry is scheduled
       ensures={"one-outcome[C14]": "n_calls('_retry_fetch') == ite(%s or %s or %s, 0, 1) and "
                                    "n_events('Fired') == ite(%s or (not %s and %s), 1, 0)"
                                    % (OUTCOME_NOPOLICY, OUTCOME_BENIGN, OUTCOME_LIMIT, OUTCOME_NOPOLICY, OUTCOME_BENIGN, OUTCOME_LIMIT)},
       checkpoints={
           "fire:errback#1": {"fails-only-without-policy[C14]": "exc_is(failure, 'OffsetOutOfRangeError') and self.auto_offset_reset is None "
                                                                "and self._fetch_offset == old(self._fetch_offset) and n_events('Timer') == 0"},
           "fire:errback#2": {"gives-up-only-at-limit[C14]": "self.request_retry_max_attempts != 0 and "
                                                              "self._fetch_attempt_count >= self.request_retry_max_attempts and n_events('Timer') == 0"},
           "call:_retry_fetch#1": {
               "out-of-range-without-policy-never-retries[C14]": "not (exc_is(failure, 'OffsetOutOfRangeError') and self.auto_offset_reset is None)",
               "policy-resets-offset[C14]": "implies(exc_is(failure, 'OffsetOutOfRangeError'), self._fetch_offset == self.auto_offset_reset)",
               "other-errors-keep-offset[C14,C02]": "implies(not exc_is(failure, 'OffsetOutOfRangeError'), self._fetch_offset == old(self._fetch_offset))",
               "retries-below-limit[C14]": "self.request_retry_max_attempts == 0 or self._fetch_attempt_count < self.request_retry_max_attempts",
               "request-cleared[C02]": "self._request_d is None"}})

# ---- C03 -------------------------------------------------------------------------------------------------
method("_update_processed_offset", "(%s, result: Any, offset: int) -> None" % SELF, props=["C03"],
       checkpoints={"call:_auto_commit#1": {"records-offset[C03]": "self._last_processed_offset == offset"}},
       # C03 "count-triggered auto-commits": every successfully processed block gives the count trigger its chance
       ensures={"count-trigger-consulted[C03]": "n_calls('_auto_commit') == 1"})

method("_update_committed_offset", "(%s, result: Any, offset: int) -> int" % SELF, props=["C03"],
       checkpoints={"call:_deliver_commit_result#1": {"records-acked-offset[C03]": "self._last_committed_offset == offset"}},
       ensures={"returns-offset[C03]": "result == offset",
                # whoever waits on the commit (commit() callers, a graceful shutdown) is told
                "waiters-notified[C03, C13]": "n_calls('_deliver_commit_result') == 1"})

method("_clear_commit_req", "(%s, result: Any) -> Any" % SELF, props=["C03"], inv_exempt_at_entry=["commit-slot"],
       ensures={"cleared[C03]": "self._commit_req is None"})

method("_clear_processor_deferred", "(%s, result: Any) -> Any" % SELF, props=["C02", "C13"],
       ensures={"cleared[C02]": "self._processor_d is None"})

method("_deliver_commit_result", "(%s, result: Any) -> None" % SELF, props=["C03"], modifies=["Consumer.*", "Deferred.*", "DelayedCall.*", "LoopingCall.*"],
       inline_only=True)
method("_auto_commit", "(%s, by_count: bool = False) -> None" % SELF, props=["C03"], modifies=["Consumer.*", "Deferred.*", "DelayedCall.*", "LoopingCall.*"],
       inline_only=True)

method("_send_commit_request", "(%s, retry_delay: Optional[float] = None, attempt: Optional[int] = None) -> None" % SELF, props=["C03"],
       inv_exempt_at_entry=["commit-call-live"],
       requires=["self._last_processed_offset is not None", "self.consumer_group is not None", "len(self._commit_ds) > 0",
                 "not self._stopping"],      # reached from commit() (public, see its precondition) or from the retry timer (reactor)
       ensures={"one-request-with-current-offset[C03]":
                "n_events('CommitRequest') == 1 and event_arg('CommitRequest', 0, 1)[0].offset == old(self._last_processed_offset) "
                "and event_arg('CommitRequest', 0, 2) == self.commit_consumer_id and event_arg('CommitRequest', 0, 3) == self.commit_generation_id",
                # the acknowledgement is routed to the bookkeeping (C03: "last-committed only holds what the broker acknowledged")
                # and a failure to the retry / report logic
                "reply-handlers-attached[C03]": "n_added('_update_committed_offset') == 1 and n_added('_handle_commit_error') == 1 "
                                                "and n_added('_clear_commit_req') == 1"},
       raises={"OperationInProgress[C03]": "iff:self._commit_req is not None"})


# ---- C02 / C12 / C14: _handle_fetch_response --------------------------------------------------------------
FR_INV = ["implies(len(messages) > 0, self._fetch_offset == messages[len(messages) - 1].offset + 1 and "
          "messages[0].offset >= old(self._fetch_offset))",
          "implies(len(messages) == 0, self._fetch_offset == old(self._fetch_offset))",
          "self._fetch_offset is not None"]

method("_process_messages", "(%s, messages: List[SourcedMessage]) -> Any" % SELF, props=["C02", "C03", "C13"],
       modifies=["Consumer.*", "Deferred.*", "DelayedCall.*", "LoopingCall.*"],
       requires=["len(messages) > 0"],
       loops={"while#1": dict(index="b", inv=["0 <= proc_block_begin", "proc_block_begin < proc_block_end", "proc_block_size >= 1",
                                               "proc_block_end == proc_block_begin + proc_block_size"])},
       raises={"Exception": "True"},
       checkpoints={"call:maybeDeferred#1": {
           # C13: the processor is never invoked once the consumer was stopped; C03/C02: nor after a failure was reported
           "only-while-running[C13,C03]": "not self._stopping and self._start_d is not None and not called(self._start_d)",
           "not-while-shutting-down[C13]": "not self._shuttingdown",
           "block-nonempty[C02]": "len(msgs_to_proc) > 0 or True"}})

method("_handle_processor_error", "(%s, failure: Ref_Failure) -> None" % SELF, props=["C13", "C03"],
       requires=["self._start_d is None or not called(self._start_d)"],
       checkpoints={"fire:errback#1": {"reports-real-failures-only[C13]": "not (self._stopping and exc_is(failure, 't.CancelledError'))"}},
       # C03/C13: a processor failure is an unrecoverable error - it reaches start()'s Deferred unless it is merely the
       # cancellation stop() itself issued; a cancellation that did NOT come from stop() is a failure like any other
       ensures={"every-real-failure-is-reported[C03,C13]":
                "implies(old(self._start_d) is not None and not (old(self._stopping) and exc_is(failure, 't.CancelledError')), "
                "n_events('Fired') == 1)"})

method("_handle_fetch_response", "(%s, responses: List[FetchResponse]) -> None" % SELF, props=["C02", "C12", "C14"],
       requires=["self._start_d is not None", "not called(self._start_d)", "self._fetch_offset is not None", "self._fetch_offset >= 0"],
       locals={"messages": "List[SourcedMessage]"},
       raises={"ChecksumError[C12]": "True", "KafkaError": "True", "Exception": "True"},
       loops={"for#1": dict(index="ri", inv=FR_INV),
              "for#1/for#1": dict(index="k", inv=FR_INV)},
       checkpoints={
           "call:_process_messages#1": {
               "delivers-from-fetch-offset[C02]": "len(messages) > 0 and messages[0].offset >= old(self._fetch_offset) and "
                   "implies(n_events('Fired') == 0, self._fetch_offset == messages[len(messages) - 1].offset + 1)",
               "not-while-processing[C02]": "old(self._msg_block_d) is None"},
           "call:append#1": {
               "from-an-own-partition-response[C02]": "resp.partition == self.partition",
               "strictly-increasing[C02]": "appended.offset >= self._fetch_offset and "
                                           "(len(messages) == 0 or messages[len(messages) - 1].offset < appended.offset)",
               "own-partition[C02]": "appended.partition == self.partition and appended.topic == self.topic"},
           "fire:errback#1": {
               "fails-only-at-max-buffer[C14,C12]": "self.max_buffer_size is not None and self.buffer_size >= self.max_buffer_size"},
           # C02: a response is skipped only when it is for another partition, a message only when it lies before the position
           "continue#1": {"skips-foreign-partitions-only[C02]": "resp.partition != self.partition"},
           "continue#2": {"skips-only-messages-before-the-position[C02]": "message.offset < self._fetch_offset"},
           # C14/C12: giving up is preceded by surfacing the failure
           "return#2": {"failure-surfaced-before-giving-up[C14]": "n_events('Fired') == 1"},
           "call:_retry_fetch#1": {
               # C02: what was extracted is handed to the processing chain before the next fetch is scheduled
               "extracted-messages-are-processed[C02]": "n_calls('_process_messages') == ite(len(messages) > 0, 1, 0)",
               # C02/C12 "messages larger than the fetch buffer": a fetch that was too small for the next message is retried
               # with a strictly larger buffer (at the maximum the failure surfaces instead: return#2); stated for the case
               # where nothing could be extracted - otherwise the processing chain has already run and may have changed anything
               "too-small-fetch-grows-the-buffer[C02, C12]": "implies(n_events('Handled:ConsumerFetchSizeTooSmall') == 1 and len(messages) == 0, "
                                                             "self.buffer_size > old(self.buffer_size))",
               "request-cleared[C02]": "implies(len(messages) == 0, self._request_d is None)",
               "nothing-skipped-on-growth[C14,C12]": "implies(len(messages) == 0, self._fetch_offset == old(self._fetch_offset))",
               "delay-reset[C14]": "implies(len(messages) == 0, self.retry_delay == self.retry_init_delay and self._fetch_attempt_count == 1)"}},
       ensures={
           # C02: a reply that arrives while a block is being processed is parked behind the block (handled when it completes),
           # never dropped, and no fetch is scheduled meanwhile
           "parked-behind-the-block[C02]": "implies(old(self._msg_block_d) is not None, n_events('Add') >= 1 and n_calls('_retry_fetch') == 0 "
                                           "and n_calls('_process_messages') == 0)",
           # C02: otherwise the next fetch is scheduled unless the failure was surfaced
           "refetch-scheduled[C02]": "implies(old(self._msg_block_d) is None, n_calls('_retry_fetch') + n_events('Fired') == 1)"},
       )


# ---- C13 -------------------------------------------------------------------------------------------------
# Consumer.stop(): nine guarded cancellations, each an excursion into foreign code -> 500+ paths and >10 min of solver time
# when executed symbolically.  It is covered by the bounded scenario stand-in (specs/scenarios.py) instead; its
# re-entrancy guard is what the rely clause "stopping-is-exclusive" records, and every other entry point proves the
# matching guarantee.
# (no precondition and no exemption from the guarantees: a stop() re-entered while stopping returns at once, and every rely
# clause is conditional on "was already stopping", so the outermost call satisfies them too)
# "leave nothing running": when the outermost stop() notifies the start Deferred (arbitrary user code runs from there on,
# possibly start() again, so that is the last point where it can be said) nothing the consumer refers to is still pending:
# no fetch / offset request, no commit request, the processor's Deferred fired, the retry timer not pending.  One clause per
# cancellation: deleting or misplacing `self._processor_d.cancel()` / `self._retry_call.cancel()` / ... fails its own clause
# (each is carried from its own cut to the notification by a rely clause that every other method has to guarantee).
_STOP_QUIET = {
    "request-cancelled[C13]": "old(self._request_d) is None or called(old(self._request_d))",
    "processor-cancelled[C13]": "self._processor_d is None or called(self._processor_d)",
    "retry-timer-cancelled[C13]": "self._retry_call is None or not active(self._retry_call)",
    "commit-request-cancelled[C13]": "self._commit_req is None",
    "looper-stopped[C13]": "self._commit_looper is None"}
method("stop", "(%s) -> Optional[int]" % SELF, props=["C13"],
       # cut after every guarded cancellation (see pyvc/units.cut_segment): what survives an excursion while stopping
       cut_points=dict(inv=["self._stopping", "self._start_d is not None", "self._start_d == old(self._start_d)", "not old(self._stopping)"],
                       # timers fire from the reactor only, never during an excursion: until stop() cancels them they stay pending
                       inv_until={"retry-timer-pending": ("self._retry_call is None or active(self._retry_call)", "self._retry_call"),
                                  "commit-timer-pending": ("self._commit_call is None or active(self._commit_call)", "self._commit_call")},
                       inv_from={"no-request": ("self._request_d is None", "self._request_d"),
                                 "no-commit-request": ("self._commit_req is None", "self._commit_req"),
                                 # once stop() has cancelled AND dropped the commit retry timer, whatever is there is pending
                                 "commit-timer-dropped": ("self._commit_call is None or active(self._commit_call)", "self._commit_call"),
                                 # what each cancellation achieved stays achieved through the excursions of the later ones
                                 "request-cancelled": (_STOP_QUIET["request-cancelled[C13]"], "self._request_d"),
                                 "processor-cancelled": (_STOP_QUIET["processor-cancelled[C13]"], "self._processor_d"),
                                 "retry-timer-cancelled": (_STOP_QUIET["retry-timer-cancelled[C13]"], "self._retry_call"),
                                 "looper-stopped": (_STOP_QUIET["looper-stopped[C13]"], "self._commit_looper is not None")}),
       loops={"while#1": dict(index="n", inv=["self._stopping", "self._start_d is not None", "self._start_d == old(self._start_d)",
                                               "self._commit_call is None or active(self._commit_call)", "self._request_d is None",
                                               _STOP_QUIET["request-cancelled[C13]"], _STOP_QUIET["processor-cancelled[C13]"],
                                               _STOP_QUIET["retry-timer-cancelled[C13]"]])},
       checkpoints={"fire:callback#1": dict({"stopped-before-notifying[C13]": "self._start_d is None and not self._stopping and self._request_d is None"},
                                            **_STOP_QUIET)},
       ensures={"start-deferred-fired-once[C13]": "implies(not old(self._stopping), called(old(self._start_d)))",
                "returns-last-processed[C13]": "result == self._last_processed_offset",
                # the same six clauses when the start Deferred had fired before stop() was called (nobody is notified, so
                # nothing runs after the last cancellation)
                **{k: "implies(not old(self._stopping) and old(called(self._start_d)), %s)" % v for k, v in _STOP_QUIET.items()}},
       raises={"RestopError[C13]": "iff:self._start_d is None"})

method("start", "(%s, start_offset: int) -> Ref_Deferred" % SELF, props=["C13"],
       requires=["start_offset != -101 or self.consumer_group"],     # documented: OFFSET_COMMITTED needs a consumer group
       raises={"RestartError[C13]": "iff:self._start_d is not None"},
       checkpoints={"call:_do_fetch#1": {"fresh-run[C13]": "self._start_d is not None and not called(self._start_d) "
                                                           "and self._fetch_offset == start_offset"}},
       # a started consumer fetches; with a group and a commit period the auto-commit timer is set up with both of its handlers
       ensures={"fetching-and-timer-set-up[C02, C03]":
                "implies(old(self._start_d) is None, n_calls('_do_fetch') == 1 and "
                "n_added('_commit_timer_stopped') == ite(self.consumer_group and self.auto_commit_every_s, 1, 0) and "
                "n_added('_commit_timer_failed') == n_added('_commit_timer_stopped'))"})


# ---- C13: graceful shutdown ---------------------------------------------------------------------------------
# promise ranks of Deferreds seen by shutdown():  0 nothing, 1 "a commit request completed", 2 "everything processed is
# committed (or there is no group)".  commit() called while shutting down (no processing any more) promises 2; the Deferred
# carried by OperationInProgress belongs to an OLDER request: only 1.
method("commit", "(%s) -> Ref_Deferred" % SELF, props=["C03", "C13"], modifies=["Consumer.*", "Deferred.*", "DelayedCall.*", "LoopingCall.*"],
       assumed_ensures={"promise[C13]": "implies(old(self._shuttingdown), promise(result) == 2)"},
       # assumption (listed): commit() is not called from a callback fired by stop() while stop() is cancelling the commit
       # machinery - there an outstanding request without waiters makes _send_commit_request raise instead of failing the Deferred
       requires=["not self._stopping"],
       checkpoints={"call:_send_commit_request#1": {
           # C03: a new request is issued only when none is outstanding and something new was processed
           "nothing-in-flight[C03]": "self._commit_req is None and old(len(self._commit_ds)) == 0",
           "something-to-commit[C03]": "self._last_processed_offset is not None and self._last_processed_offset != self._last_committed_offset",
           "group-configured[C03]": "self.consumer_group",
           "caller-registered-as-waiter-first[C03]": "len(self._commit_ds) == 1"}},
       ensures={"no-group-fails[C03]": "implies(not self.consumer_group, called(result) and failed(result) and n_calls('_send_commit_request') == 0)",
                "up-to-date-succeeds-at-once[C03]": "implies(self.consumer_group and (old(self._last_processed_offset) is None or "
                    "old(self._last_processed_offset) == old(self._last_committed_offset)), called(result) and not failed(result) "
                    "and n_calls('_send_commit_request') == 0)",
                "new-request-when-idle[C03]": "implies(self.consumer_group and old(self._last_processed_offset) is not None and "
                    "old(self._last_processed_offset) != old(self._last_committed_offset) and old(len(self._commit_ds)) == 0, "
                    "n_calls('_send_commit_request') == 1)",
                "busy-caller-queued-behind-the-commit-in-flight[C03, C13]":
                    "implies(self.consumer_group and old(self._last_processed_offset) is not None and "
                    "old(self._last_processed_offset) != old(self._last_committed_offset) and old(len(self._commit_ds)) > 0, "
                    "len(self._commit_ds) == old(len(self._commit_ds)) + 1)",
                "busy-reports-in-progress[C03]": "implies(self.consumer_group and old(self._last_processed_offset) is not None and "
                    "old(self._last_processed_offset) != old(self._last_committed_offset) and old(len(self._commit_ds)) > 0, "
                    "called(result) and failed(result) and n_calls('_send_commit_request') == 0)"})

SH_ENV = {"self": "Ref_Consumer", "_handle_shutdown_commit_success": "closure", "_handle_shutdown_commit_failure": "closure",
          "_commit_and_stop": "closure"}


def shclosure(name, sig, **kw):
    # C16 relies on the same contract: a previous-generation consumer is shut down "committing its progress"
    d = dict(sig=sig, props=["C13", "C16"], entry_point=True, closure_env=dict(SH_ENV))
    d['closure_env'].pop(name, None)
    d.update(kw)
    contract(C + "shutdown.<%s>" % name)(type('_', (), d))


shclosure("_handle_shutdown_commit_success", "(result: Any) -> None", expects=2, private_locals=["d"],
          requires=["self._shutdown_d is not None", "not called(self._shutdown_d)", "self._start_d is not None", "not self._stopping"],
          # C13: "... and then stops": the consumer is stopped and only then is the shutdown reported, as a success
          ensures={"stops-then-reports[C13]": "n_calls('stop') == 1 and n_events('Fired') == 1"},
          checkpoints={"fire:callback#1": {"shutdown-over-before-reporting[C13]": "not self._shuttingdown"}},
          notes="runs when 'everything processed is committed': stops and reports success")

shclosure("_commit_and_stop", "(result: Any) -> Any", expects=0, external_effect=True,
          requires=["self._shutdown_d is not None", "not called(self._shutdown_d)", "self._start_d is not None", "not self._stopping",
                    "self._shuttingdown"],
          # C13: with a group everything processed is committed first and both outcomes of that commit are handled
          ensures={"commits-first-with-a-group[C13, C16]":
                   "n_calls('commit') == ite(self.consumer_group, 1, 0) and "
                   "n_added('_handle_shutdown_commit_success') == n_calls('commit') and "
                   "n_added('_handle_shutdown_commit_failure') == n_calls('commit') and "
                   "n_calls('_handle_shutdown_commit_success') == 1 - n_calls('commit')"},
          checkpoints={"call:_handle_shutdown_commit_success#1": {"only-without-group[C13, C16]": "not self.consumer_group"}})

shclosure("_handle_shutdown_commit_failure", "(failure: Ref_Failure) -> None", expects=0, private_locals=["d"],
          # C13: a commit already in flight -> commit again when it completes (its result does not cover the latest progress);
          # any other failure: the consumer is stopped and the shutdown reports the failure
          ensures={"retries-behind-the-commit-in-flight[C13, C16]":
                   "implies(old(exc_is(failure, 'OperationInProgress')), n_added('_commit_and_stop') == 1 and n_calls('stop') == 0 "
                   "and n_events('Fired') == 0)",
                   "stops-then-reports-the-failure[C13]":
                   "implies(not old(exc_is(failure, 'OperationInProgress')), n_calls('stop') == 1 and n_events('Fired') == 1)"},
          requires=["self._shutdown_d is not None", "not called(self._shutdown_d)", "self._start_d is not None", "not self._stopping",
                    "implies(exc_is(failure, 'OperationInProgress'), promise(failure.value.deferred) == 1)"])

method("shutdown", "(%s) -> Ref_Deferred" % SELF, props=["C13", "C16"],
       requires=["not self._stopping"],
       ensures={"refused-when-not-running-or-twice[C13]": "implies(old(self._start_d) is None or old(self._shutdown_d) is not None, "
                                                          "called(result) and failed(result))",
                # C13: the commit-and-stop continuation is either hooked behind the processing in progress or run at once
                "continuation-started[C13]": "implies(old(self._start_d) is not None and old(self._shutdown_d) is None, "
                                             "n_added('_commit_and_stop') + n_calls('_commit_and_stop') == 1 and "
                                             "n_added('_commit_and_stop') == ite(old(self._processor_d) is not None, 1, 0))"},
       checkpoints={"call:addCallback#1": {
           # C13: graceful shutdown waits for the processing in progress: the continuation is attached to the processor's Deferred
           "waits-for-processor[C13]": "self._shuttingdown and self._shutdown_d is not None and not called(self._shutdown_d)"}})


method("_handle_commit_error", "(%s, failure: Ref_Failure, commit_offset: int, retry_delay: float, attempt: int) -> Any" % SELF,
       props=["C03", "C14"],
       requires=["retry_delay > 0", "attempt >= 1"],
       checkpoints={
           "call:callLater#1": {
               "retry-only-below-limit[C03,C14]": "self.request_retry_max_attempts == 0 or attempt < self.request_retry_max_attempts",
               "retriable-kafka-error-only[C03]": "exc_is(failure, 'KafkaError') and not exc_is(failure, 'IllegalGeneration') and "
                                                  "not exc_is(failure, 'InvalidGroupId') and not exc_is(failure, 'UnknownMemberId')",
               "committed-offset-untouched[C03]": "self._last_committed_offset == old(self._last_committed_offset)"},
           # (ordinals of method-call checkpoints count calls along a path: each path delivers once, whichever of the four sites)
           "call:_deliver_commit_result#1": {"committed-offset-untouched[C03]": "self._last_committed_offset == old(self._last_committed_offset)"}},
       ensures={"backoff[C14]": "implies(n_events('Timer') == 1, event_arg('Timer', 0, 0) == min(retry_delay * 1.20205, self.retry_max_delay))",
                # C03/C14: exactly one outcome - the waiters are told (our own cancellation while stopping, a non-Kafka error,
                # a fencing error, the attempt limit) or one retry is scheduled, counted as the next attempt
                "one-outcome[C03, C14]":
                    "n_calls('_deliver_commit_result') == ite((old(self._stopping) and old(exc_is(failure, 't.CancelledError'))) or "
                    "not old(exc_is(failure, 'KafkaError')) or old(exc_is(failure, 'IllegalGeneration')) or old(exc_is(failure, 'InvalidGroupId')) "
                    "or old(exc_is(failure, 'UnknownMemberId')) or (old(self.request_retry_max_attempts) != 0 and "
                    "attempt >= old(self.request_retry_max_attempts)), 1, 0) and "
                    "n_events('Timer') == 1 - n_calls('_deliver_commit_result')",
                "retry-is-the-next-attempt[C14]": "implies(n_events('Timer') == 1, event_arg('Timer', 0, 3) == attempt + 1 and "
                                                  "event_arg('Timer', 0, 2) == event_arg('Timer', 0, 0))"})

method("_auto_commit", "(%s, by_count: bool = False) -> None" % SELF, props=["C03"],
       checkpoints={"call:commit#1": {
           # C03: automatic commits happen only while running, with a group, after something was processed
           "only-while-running[C03,C13]": "not self._stopping and not self._shuttingdown and self._start_d is not None "
                                          "and self._last_processed_offset is not None and self.consumer_group",
           "count-threshold[C03]": "implies(by_count, self.auto_commit_every_n and (self._last_committed_offset is None or "
                                   "self._last_processed_offset - self._last_committed_offset >= self.auto_commit_every_n))"}},
       ensures={
           # C03 "count- and time-triggered auto-commits": when a commit is due and none is in flight one is started, and its
           # failure is reported; when one is in flight the trigger is queued behind it - never dropped
           "commits-when-due[C03]":
               "n_calls('commit') == ite((not old(self._stopping) and not old(self._shuttingdown) and old(self._start_d) is not None and old(self._last_processed_offset) is not None and self.consumer_group and not (by_count and not self.auto_commit_every_n)) and (not by_count or old(self._last_committed_offset) is None or old(self._last_processed_offset) - old(self._last_committed_offset) >= self.auto_commit_every_n) and len(old(self._commit_ds)) == 0, 1, 0)" ,
           "commit-failure-reported[C03]": "n_added('_handle_auto_commit_error') == n_calls('commit')",
           "queued-behind-the-commit-in-flight[C03]":
               "implies((not old(self._stopping) and not old(self._shuttingdown) and old(self._start_d) is not None and old(self._last_processed_offset) is not None and self.consumer_group and not (by_count and not self.auto_commit_every_n)) and (not by_count or old(self._last_committed_offset) is None or old(self._last_processed_offset) - old(self._last_committed_offset) >= self.auto_commit_every_n) and len(old(self._commit_ds)) > 0, n_added('_retry_auto_commit') == 1 and "
               "len(self._commit_ds) == len(old(self._commit_ds)) + 1)" })


# ---- small callbacks: entry points that Twisted invokes; under contract so that the object invariant and the guarantees
# (what every other unit relies on across excursions) are proved for them too, not assumed -------------------------------
method("_retry_auto_commit", "(%s, result: Any, by_count: bool = False) -> Any" % SELF, props=["C03", "C13"],
       ensures={"tries-again-and-passes-the-result-on[C03]": "n_calls('_auto_commit') == 1 and result == p_result"},
       notes="hooked behind a commit that was in progress: tries the automatic commit again and passes the result on")

method("_handle_auto_commit_error", "(%s, failure: Ref_Failure) -> None" % SELF, props=["C03", "C13"],
       checkpoints={"fire:errback#1": {"reported-once[C13]": "self._start_d is not None and not called(self._start_d)"}},
       # C03/C13: a failed automatic commit surfaces on the Deferred returned by start() (unless that has fired already)
       ensures={"failure-surfaces[C03, C13]": "n_events('Fired') == ite(old(self._start_d) is not None and not old(called(self._start_d)), 1, 0)"})

method("_commit_timer_failed", "(%s, fail: Ref_Failure) -> None" % SELF, props=["C13"],
       inv_exempt_at_entry=["looper-running"],
       # runs when the LoopingCall's function raised: the looper has stopped itself and is still the consumer's looper
       # (and not in the middle of stop(): the errback fires from the LoopingCall's own reactor tick, stop() is synchronous)
       requires=["self._commit_looper is not None", "not running(self._commit_looper)", "self.auto_commit_every_s is not None",
                 "not self._stopping"])

method("_commit_timer_stopped", "(%s, lCall: Ref_LoopingCall) -> None" % SELF, props=["C13"],
       inv_exempt_at_entry=["looper-running"],
       # the looper that has just been stopped is the only one that may be found not running
       requires=["self._commit_looper is None or self._commit_looper == lCall or running(self._commit_looper)"],
       ensures={"own-looper-dropped[C13]": "implies(old(self._commit_looper) is not None and old(self._commit_looper) == lCall, "
                                            "self._commit_looper is None)"})
