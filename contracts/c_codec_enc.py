"""Contracts for the request encoders of afkak/kafkacodec.py (C04): emitted bytes == independent grammar encoding."""
from pyvc.contracts import contract

K = "afkak.kafkacodec.KafkaCodec."
HDR_REQ = ["-32768 <= request_key and request_key <= 32767", "-2147483648 <= correlation_id and correlation_id <= 2147483647",
           "len(client_id) <= 32767"]
CID = ["-2147483648 <= correlation_id and correlation_id <= 2147483647", "len(client_id) <= 32767"]


@contract(K + "_encode_message_header")
class _:
    sig = "(client_id: bytes, correlation_id: int, request_key: int, api_version: int = 0) -> bytes"
    props = ["C04"]
    requires = HDR_REQ + ["-32768 <= api_version and api_version <= 32767"]
    ensures = {"func[C04]": "result == req_header(request_key, api_version, correlation_id, client_id)"}


@contract(K + "_encode_message")
class _:
    sig = "(message: Message) -> bytes"
    props = ["C04"]
    requires = ["0 <= message.attributes and message.attributes <= 255",
                "message.key is None or len(message.key) < 2147483648", "message.value is None or len(message.value) < 2147483648",
                "message.magic != 1 or message.timestamp is None or (-9223372036854775808 <= message.timestamp and message.timestamp <= 9223372036854775807)"]
    ensures = {"v0[C04,C05]": "implies(message.magic == 0, result == enc_msg0(message.attributes, message.key, message.value))",
               "v1[C04,C05]": "implies(message.magic == 1 and message.timestamp is not None, "
                          "result == enc_msg1(message.attributes, message.key, message.value, message.timestamp))",
               "v1-now[C04]": "implies(message.magic == 1 and message.timestamp is None, "
                              "result == enc_msg1(message.attributes, message.key, message.value, int(time_read(0) * 1000)))"}
    ensures["size[C04]"] = "len(result) <= 26 + ite(message.key is None, 0, len(message.key)) + ite(message.value is None, 0, len(message.value))"
    raises = {"ProtocolError": "iff:message.magic != 0 and message.magic != 1"}
    # C05 ("encoding then decoding is the identity on messages"): the encoder is proved to produce enc_msg0/1(m) (above) and
    # the decoder to return what the parser-side spec reads (c_codec_dec2).  The spec-level facts that would close the
    # loop - msg0_key(enc_msg0(a, k, v)) == k, ... - were attempted as `lemmas` with unpack-of-pack axioms: the checksum
    # and magic/attribute parts discharge (cvc5 18 s, z3 1 s), the key/value parts time out in both solvers at 30 s, so
    # they are NOT claimed; the thorough tier's native cross-check evaluates both specs against the real codec instead.


@contract(K + "_encode_message_set")
class _:
    sig = "(messages: List[Message], offset: Optional[int] = None, magic: int = 0) -> bytes"
    props = ["C04"]
    requires = ["forall_items(messages, msg_encodable)", "len(messages) < 100000000",
                "offset is None or (0 <= offset and offset + len(messages) < 9223372036854775807)", "magic == 0 or magic == 1"]
    ensures = {"func[C04]": "result == enc_msgset_prefix(messages, ite(offset is None, 0, offset), ite(offset is None, 0, 1), len(messages))"}
    locals = {"message_set": "List[bytes]"}
    loops = {"for#1": dict(index="i", inv=[
        "join_bytes(message_set) == enc_msgset_prefix(messages, ite(old(offset) is None, 0, old(offset)), incr, i)",
        "offset == ite(old(offset) is None, 0, old(offset) + i)",
        "incr == ite(old(offset) is None, 0, 1)"])}


def simple(name, sig, requires, ensures, raises=None, loops=None, **extra):
    d = dict(sig=sig, props=["C04"], requires=requires, ensures={"func[C04]": ensures})
    d.update(extra)
    if raises:
        d['raises'] = raises
    if loops:
        d['loops'] = loops
    contract(K + name)(type('_', (), d))


STR_ASCII = "({0} is None or (is_ascii_s({0}) and len(enc_ascii({0})) <= 32767))"
STR_UTF8 = "({0} is None or len(enc_utf8({0})) <= 32767)"
I32 = "(-2147483648 <= {0} and {0} <= 2147483647)"

simple("encode_consumermetadata_request", "(client_id: bytes, correlation_id: int, consumer_group: Optional[str]) -> bytes",
       CID + [STR_ASCII.format("consumer_group")],
       "result == req_header(10, 0, correlation_id, client_id) + enc_str16_ascii(consumer_group)")

simple("encode_leave_group_request", "(client_id: bytes, correlation_id: int, payload: _LeaveGroupRequest) -> bytes",
       CID + [STR_UTF8.format("payload.group"), STR_UTF8.format("payload.member_id")],
       "result == req_header(13, 0, correlation_id, client_id) + enc_str16_utf8(payload.group) + enc_str16_utf8(payload.member_id)")

simple("encode_heartbeat_request", "(client_id: bytes, correlation_id: int, payload: _HeartbeatRequest) -> bytes",
       CID + [STR_UTF8.format("payload.group"), STR_UTF8.format("payload.member_id"), I32.format("payload.generation_id")],
       "result == req_header(12, 0, correlation_id, client_id) + enc_str16_utf8(payload.group) + p_i32(payload.generation_id) "
       "+ enc_str16_utf8(payload.member_id)")

simple("encode_api_versions_request", "(client_id: bytes, correlation_id: int, api_version_request: ApiVersionRequest) -> bytes",
       CID + ["-32768 <= api_version_request.api_key and api_version_request.api_key <= 32767",
              "-32768 <= api_version_request.api_version and api_version_request.api_version <= 32767"],
       "result == req_header(api_version_request.api_key, api_version_request.api_version, correlation_id, client_id)")


def _group_ret(eng, bound):
    ety = bound['tuples'].ty[1]
    return ('dict', ('str',), ('dict', ('int',), ety))


@contract("afkak._util.group_by_topic_and_partition")
class _:
    sig = "(tuples: Any) -> Any"
    props = ["C04"]
    trusted = True        # assumed here; its own definitional spec is checked by the bounded stand-in (defaultdict not modelled)
    dep_ret = staticmethod(_group_ret)
    ensures = {"func": "result == grouped(tuples)"}


ENC_ERR = {"struct.error": "True", "UnicodeEncodeError": "True", "TypeError": "True", "AttributeError": "True"}

simple("encode_metadata_request", "(client_id: bytes, correlation_id: int, topics: List[str]) -> bytes",
       CID + ["len(topics) <= 2147483647"],
       "result == req_header(3, 0, correlation_id, client_id) + p_i32(len(topics)) + enc_strs_ascii(topics, len(topics))",
       raises=ENC_ERR,
       loops={"for#1": dict(index="i", inv=[
           "join_bytes(message) == req_header(3, 0, correlation_id, client_id) + p_i32(len(topics)) + enc_strs_ascii(topics, i)"])})

simple("encode_join_group_protocol_metadata", "(version: int, subscriptions: List[str], user_data: Optional[bytes]) -> bytes",
       ["len(subscriptions) <= 2147483647", "-32768 <= version and version <= 32767", "user_data is None or len(user_data) <= 2147483647"],
       "result == p_i16(version) + p_i32(len(subscriptions)) + enc_strs_utf8(subscriptions, len(subscriptions)) + enc_bytes32(user_data)",
       raises=ENC_ERR,
       loops={"for#1": dict(index="i", inv=[
           "message == p_i16(version) + p_i32(len(subscriptions)) + enc_strs_utf8(subscriptions, i)"])})

simple("encode_join_group_request", "(client_id: bytes, correlation_id: int, payload: _JoinGroupRequest) -> bytes",
       CID + ["len(payload.group_protocols) <= 2147483647"],
       "result == req_header(11, 0, correlation_id, client_id) + enc_str16_utf8(payload.group) + p_i32(payload.session_timeout) "
       "+ enc_str16_utf8(payload.member_id) + enc_str16_utf8(payload.protocol_type) + p_i32(len(payload.group_protocols)) "
       "+ enc_join_protocols(payload.group_protocols, len(payload.group_protocols))",
       raises=ENC_ERR,
       loops={"for#1": dict(index="i", inv=[
           "message == req_header(11, 0, correlation_id, client_id) + enc_str16_utf8(payload.group) + p_i32(payload.session_timeout) "
           "+ enc_str16_utf8(payload.member_id) + enc_str16_utf8(payload.protocol_type) + p_i32(len(payload.group_protocols)) "
           "+ enc_join_protocols(payload.group_protocols, i)"])})

simple("encode_sync_group_request", "(client_id: bytes, correlation_id: int, payload: _SyncGroupRequest) -> bytes",
       CID + ["len(payload.group_assignment) <= 2147483647"],
       "result == req_header(14, 0, correlation_id, client_id) + enc_str16_utf8(payload.group) + p_i32(payload.generation_id) "
       "+ enc_str16_utf8(payload.member_id) + p_i32(len(payload.group_assignment)) "
       "+ enc_sync_members(payload.group_assignment, len(payload.group_assignment))",
       raises=ENC_ERR,
       loops={"for#1": dict(index="i", inv=[
           "message == req_header(14, 0, correlation_id, client_id) + enc_str16_utf8(payload.group) + p_i32(payload.generation_id) "
           "+ enc_str16_utf8(payload.member_id) + p_i32(len(payload.group_assignment)) + enc_sync_members(payload.group_assignment, i)"])})


def grouped_enc(name, sig, prefix_expr, pfx, requires=(), extra_sig_names=None):
    """two-level [topic [partition ...]] request body over the grouped payloads"""
    G = "grouped(payloads)"
    simple(name, sig, CID + list(requires),
           "result == %s + p_i32(len(%s)) + %s_topics(%s, len(%s))" % (prefix_expr, G, pfx, G, G),
           raises=ENC_ERR,
           loops={"for#1": dict(index="i", inv=[
                      "message == %s + p_i32(len(%s)) + %s_topics(%s, i)" % (prefix_expr, G, pfx, G),
                      "grouped_payloads == %s" % G]),
                  "for#1/for#1": dict(index="j", inv=[
                      "message == %s + p_i32(len(%s)) + %s_topics(%s, i) + enc_str16_ascii(dkey(%s, i)) + p_i32(len(dval(%s, i))) "
                      "+ %s_parts(dval(%s, i), j)" % (prefix_expr, G, pfx, G, G, G, pfx, G),
                      "grouped_payloads == %s" % G, "topic_payloads == dval(%s, i)" % G, "i < len(%s)" % G])})


grouped_enc("encode_offset_commit_request",
            "(client_id: bytes, correlation_id: int, group: Optional[str], group_generation_id: int, consumer_id: Optional[str], payloads: List[OffsetCommitRequest]) -> bytes",
            "req_header(8, 1, correlation_id, client_id) + enc_str16_ascii(group) + p_i32(group_generation_id) + enc_str16_ascii(consumer_id)",
            "ocq")
from pyvc.contracts import CONTRACTS as _C
_C[K + "encode_offset_commit_request"].raises["AssertionError"] = "iff:consumer_id is None"
grouped_enc("encode_offset_fetch_request",
            "(client_id: bytes, correlation_id: int, group: Optional[str], payloads: List[OffsetFetchRequest]) -> bytes",
            "req_header(9, 1, correlation_id, client_id) + enc_str16_ascii(group)", "ofq")
grouped_enc("encode_offset_request",
            "(client_id: bytes, correlation_id: int, payloads: List[OffsetRequest]) -> bytes",
            "req_header(2, 0, correlation_id, client_id) + p_i32(-1)", "oq")
grouped_enc("encode_fetch_request",
            "(client_id: bytes, correlation_id: int, payloads: List[FetchRequest], max_wait_time: int = 100, min_bytes: int = 4096, api_version: int = 0) -> bytes",
            "req_header(1, ite(api_version >= 2, 2, api_version), correlation_id, client_id) + p_i32(-1) + p_i32(max_wait_time) + p_i32(min_bytes)",
            "fq", requires=["-32768 <= api_version and api_version <= 32767"])


# ---- bounded stand-ins (NOT proofs): the same contract evaluated natively on generated inputs ------------------
simple("encode_produce_request",
       "(client_id: bytes, correlation_id: int, payloads: List[ProduceRequest], acks: int = 1, timeout: int = 1000, api_version: int = 0) -> bytes",
       CID + ["-32768 <= acks and acks <= 32767", "-2147483648 <= timeout and timeout <= 2147483647", "0 <= api_version and api_version <= 32767",
              "all(m.magic == (1 if api_version >= 2 else 0) and (m.magic == 0 or m.timestamp is not None) and 0 <= m.attributes <= 255 for p in payloads for m in p.messages)"],
       "result == req_header(0, produce_header_version(api_version), correlation_id, client_id) + p_i16(acks) + p_i32(timeout) "
       "+ p_i32(len(grouped(payloads))) + pq_topics(grouped(payloads), len(grouped(payloads)))",
       raises=ENC_ERR, bounded=dict(n=1500), search={"api_version": "choice:[0,1,2,3]", "payloads": "produce_payloads", "acks": "choice:[0,1,-1]"},
       notes="nested universally quantified precondition (every message of every payload matches the request's message format) is outside "
             "the quantifier-free contract language; checked as a bounded stand-in")

contract(K + "encode_sync_group_member_assignment")(type('_', (), dict(
    sig="(version: int, assignments: Dict[str, List[int]], user_data: Optional[bytes]) -> bytes", props=["C04", "C15"],
    bounded=dict(n=1500), search={"version": "choice:[0, 0, 0, 1, -1, 40000]"},
    ensures={"func[C04,C15]": "implies(sgma_encodable(version, assignments, user_data), result == sgma_encoded(version, assignments, user_data))",
             # C15, last sentence: a member decodes from the encoded assignment exactly the partitions assigned to it
             "round-trip[C15]": "implies(sgma_encodable(version, assignments, user_data) and version == 0, "
                                "sgma_roundtrip(result, version, assignments, user_data))"},
    raises={k: "not sgma_encodable(version, assignments, user_data)" for k in ("struct.error", "UnicodeEncodeError", "TypeError", "AttributeError")},
    notes="dynamic struct format ('>i%si' % n with *partitions): bounded comparison with an encoder written from the protocol "
          "guide, and decode(encode(x)) == x through afkak's own decoder")))
