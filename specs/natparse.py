"""Native-only (never interpreted symbolically) reference parser driven by the grammar tables of specs/grammar.py, used
by BOUNDED stand-ins for decoders whose code is outside the symbolic engine's subset (dynamic struct formats such as
">%di" % n, dict-of-dict results).  Independent of afkak: it reads the schema, not the decoder."""
import struct

from . import grammar

_FMT = {'i8': '>b', 'i16': '>h', 'i32': '>i', 'i64': '>q', 'u32': '>I'}


class Malformed(Exception):
    pass


def _take(data, p, n):
    if n < 0 or p + n > len(data):
        raise Malformed()
    return data[p:p + n], p + n


def nat_parse_fields(fields, data, p):
    out = {}
    for name, kind in fields:
        if isinstance(kind, grammar.Arr):
            raw, p = _take(data, p, 4)
            n = struct.unpack('>i', raw)[0]
            if n < 0:
                raise Malformed()
            items = []
            for _ in range(n):
                if isinstance(kind.elem, str):
                    v, p = nat_parse_fields([('v', kind.elem)], data, p)
                    items.append(v['v'])
                else:
                    v, p = nat_parse_fields(kind.elem, data, p)
                    items.append(v)
            out[name] = items
        elif kind in _FMT:
            raw, p = _take(data, p, struct.calcsize(_FMT[kind]))
            out[name] = struct.unpack(_FMT[kind], raw)[0]
        elif kind in ('str_ascii', 'str_utf8', 'bytes16'):
            raw, p = _take(data, p, 2)
            n = struct.unpack('>h', raw)[0]
            if n == -1 and kind == 'bytes16':
                out[name] = None
                continue
            raw, p = _take(data, p, n)
            if kind == 'bytes16':
                out[name] = raw
            else:
                try:
                    out[name] = raw.decode('ascii' if kind == 'str_ascii' else 'utf-8')
                except UnicodeDecodeError:
                    raise Malformed()
        elif kind == 'bytes':
            raw, p = _take(data, p, 4)
            n = struct.unpack('>i', raw)[0]
            if n == -1:
                out[name] = None
                continue
            out[name], p = _take(data, p, n)
        else:
            raise ValueError(kind)
    return out, p


def nat_parse(schema, data):
    """parsed top-level fields of a response, or None when the bytes are not a well-formed instance of the schema
    (trailing bytes are allowed, as every Kafka decoder ignores them)"""
    if not grammar.RESP_SCHEMAS:
        grammar.generate()
    try:
        return nat_parse_fields(grammar.RESP_SCHEMAS[schema], data, 0)[0]
    except Malformed:
        return None


def mdr_wellformed(data):
    r = nat_parse('mdr', data)
    return r is not None and len(r['brokers']) <= 1024


def mdr_expected(data):
    from afkak.common import BrokerMetadata, TopicMetadata, PartitionMetadata
    r = nat_parse('mdr', data)
    if r is None:
        return None
    brokers = {b['node_id']: BrokerMetadata(b['node_id'], b['host'], b['port']) for b in r['brokers']}
    topics = {}
    for t in r['topics']:
        parts = {}
        for p in t['partitions']:
            parts[p['partition']] = PartitionMetadata(t['name'], p['partition'], p['error'], p['leader'],
                                                      tuple(p['replicas']), tuple(p['isr']))
        topics[t['name']] = TopicMetadata(t['name'], t['error'], parts)
    return (brokers, topics)


def sgma_wellformed(data):
    r = nat_parse('sgma', data)
    return r is not None and r['version'] == 0


def sgma_expected(data):
    from afkak.common import _SyncGroupMemberAssignment
    r = nat_parse('sgma', data)
    if r is None:
        return None
    return _SyncGroupMemberAssignment(r['version'], {a['topic']: tuple(a['partitions']) for a in r['assignments']},
                                      r['user_data'])


def sgma_encodable(version, assignments, user_data):
    return (-32768 <= version <= 32767 and all(len(t.encode('ascii', 'replace')) <= 32767 and t.isascii() for t in assignments)
            and all(-2 ** 31 <= p < 2 ** 31 for ps in assignments.values() for p in ps))


def sgma_encoded(version, assignments, user_data):
    """ConsumerProtocol assignment v0, written from the protocol guide: version:i16 [topic:str [partition:i32]] user_data:bytes"""
    out = struct.pack('>h', version) + struct.pack('>i', len(assignments))
    for t, ps in assignments.items():
        tb = t.encode('ascii')
        out += struct.pack('>h', len(tb)) + tb + struct.pack('>i', len(ps)) + b''.join(struct.pack('>i', p) for p in ps)
    out += struct.pack('>i', -1) if user_data is None else struct.pack('>i', len(user_data)) + user_data
    return out


def sgma_roundtrip(encoded, version, assignments, user_data):
    from afkak.kafkacodec import KafkaCodec
    r = KafkaCodec.decode_sync_group_member_assignment(encoded)
    return (r.version == version and r.user_data == user_data and list(r.assignments) == list(assignments)
            and all(tuple(r.assignments[t]) == tuple(ps) for t, ps in assignments.items()))
