"""check <PROP>: run the property's units, triage refutations through the replay ladder, honour KNOWN_FINDINGS.txt,
write evidence/<PROP>.json, print VIOLATION / KNOWN-FINDING lines, choose the exit code."""
import json
import os
import re
import subprocess
import sys
import time

from . import driver

VERIF = driver.VERIF
VENV_PY = '/venv/bin/python'


def native(job, timeout=120):
    """run the native harness against the repository tree currently under check"""
    env = dict(os.environ)
    repo = os.environ.get('AFKAK_REPO', '/repo')
    env['PYTHONPATH'] = repo + ':' + VERIF
    env['PYTHONDONTWRITEBYTECODE'] = '1'
    try:
        p = subprocess.run([VENV_PY, '-m', 'pyvc.native_replay'], input=json.dumps(job), capture_output=True, text=True,
                           timeout=timeout, cwd=VERIF, env=env)
    except subprocess.TimeoutExpired:
        return dict(harness_error='timeout')
    out = p.stdout.strip().splitlines()
    if not out:
        return dict(harness_error='no output: ' + p.stderr[-400:])
    try:
        return json.loads(out[-1])
    except ValueError:
        return dict(harness_error='bad output: ' + p.stdout[-400:])


def job_for(qualname, instance, mode):
    from .contracts import CONTRACTS
    from . import ty as T
    c = CONTRACTS[qualname]
    params = [p[0] for p in c.params]
    job = dict(mode=mode, qualname=qualname, params=params, ensures=dict(c.ensures), raises=dict(c.raises),
               requires=list(c.requires), kind=c.kind, call=c.extra.get('native_call'))
    job['ptypes'] = {p[0]: _ser(p[1]) for p in c.params}
    for k, v in (c.closure_env or {}).items():
        if v != 'closure':
            job['ptypes'][k] = _ser(T.parse_ty(v))
    if instance:
        for k in instance:
            job['ptypes'].pop(k, None)
    job['instance'] = instance
    job['hints'] = c.extra.get('search', {})
    return job


def _ser(ty):
    if isinstance(ty, tuple):
        return [_ser(x) for x in ty]
    return ty


def replay_ladder(unit, obl, seed, tier):
    """-> dict(kind: 'confirmed'|'none', inputs, run, rung)   confirmed = a concrete input falsifies the contract
    of the unit on the real code (natively)."""
    qn, inst = unit['qualname'], unit['instance']
    out = dict(kind='none', rung=None, tried=0)
    from .contracts import CONTRACTS
    c = CONTRACTS[qn]
    if c.extra.get('method') or any(p_[1][0] == 'ref' for p_ in c.params) or '@' in qn or \
            any(str(v).startswith('Ref_') or v == 'closure' for v in (c.closure_env or {}).values()):
        # a method / closure over an object: its counter-model is a heap state, which the native harness cannot
        # rebuild in general; the violation is reported with the solver's output (no-failing-input-found)
        out['note'] = 'stateful unit: counter-model is a heap state (see model / smt_head); no native replay'
        return out
    # rung 1: the solver's model
    if obl.get('model') is not None:
        job = job_for(qn, inst, 'replay')
        inputs = dict(obl['model'])
        if inst:
            inputs.update(inst)
        job['inputs'] = inputs
        r = native(job)
        out['model_replay'] = r
        if r.get('failed'):
            out.update(kind='confirmed', rung='model', inputs=inputs, run=r)
            return out
    # rung 2/3: bounded search over generated inputs for a concrete failing input of the unit's contract
    job = job_for(qn, inst, 'search')
    job['search'] = dict(n=3000 if tier == 'quick' else 30000, seed=seed, hints=job['hints'])
    if inst:
        job['inputs_fixed'] = inst
    r = native(job, timeout=300)
    out['search'] = {k: v for k, v in r.items() if k != 'hit'}
    if r.get('hit'):
        out.update(kind='confirmed', rung='bounded-search', inputs=r['hit']['inputs'], run=r['hit']['run'])
    return out


def load_known():
    path = os.path.join(VERIF, 'KNOWN_FINDINGS.txt')
    findings = []
    if os.path.exists(path):
        for line in open(path):
            line = line.strip()
            m = re.match(r'finding:\s+property=(\S+)\s+obligation=(\S+)\s+witness=(.*)$', line)
            if m:
                findings.append(dict(prop=m.group(1), obligation=m.group(2), witness=m.group(3)))
    return findings


def obl_id(prop, unit, o):
    inst = unit['instance']
    u = unit['qualname'].split('afkak.', 1)[-1] + ('[%s]' % (inst['@label'] if '@label' in inst else ','.join('%s=%s' % kv for kv in sorted(inst.items()))) if inst else '')
    return '%s:%s:%s' % (prop, u, o['name'])


def main(argv=None):
    argv = argv or sys.argv[1:]
    prop = argv[0]
    tier = os.environ.get('VERIF_TIER', 'quick')
    if '--thorough' in argv:
        tier = 'thorough'
    if '--quick' in argv:
        tier = 'quick'
    seed = int(os.environ.get('VERIF_SEED', '0'))
    ids = [json.loads(l)['id'] for l in open(os.path.join(VERIF, 'properties.jsonl')) if l.strip()]
    if prop not in ids:
        print('CHECKER-FAILURE unknown property id %r (known: %s..%s)' % (prop, ids[0], ids[-1]))
        return 3
    if '--replay' in argv:
        return replay_file(argv[argv.index('--replay') + 1])
    t0 = time.time()
    try:
        eng, results, wall = driver.run_property(prop, tier)
    except Exception as e:
        import traceback
        print('CHECKER-FAILURE %s: %s' % (type(e).__name__, e))
        traceback.print_exc()
        return 3
    known = load_known()
    n_obl = n_dis = 0
    by_backend = {}
    solver_time = 0.0
    undecided, errors, violations, known_hits, samples, bounded_units = [], [], [], [], [], []
    funcs = []
    covers_sat = covers_total = 0
    names = set()
    for unit in results:
        funcs.append(dict(qualname=unit['qualname'], instance=unit['instance'], ast_hash=unit['src_hash'], paths=unit['paths'],
                          time_s=unit['time_s']))
        if unit['error']:
            errors.append('%s: %s' % (unit['qualname'], unit['error'][-600:]))
            continue
        if unit['undecided']:
            undecided.append('%s: %s' % (unit['qualname'], unit['undecided']))
        for pth, line in unit.get('dead_ends', [])[:3]:
            # vacuity guard: a path on which every alternative contradicts what has been assumed (contract clauses,
            # invariants) proves nothing from there on - the unit is undecided, not silently accepted
            undecided.append('%s: path %d is cut at source line %s by contradictory assumptions (vacuous from there on)'
                             % (unit['qualname'], pth, line))
        refuted_here = []
        for o in unit['obls']:
            oid = obl_id(prop, unit, o)
            solver_time += o['time_s']
            if o['disagreement']:
                errors.append('solver disagreement on %s (z3=%s cvc5=%s)' % (oid, o['z3'], o['cvc5']))
            if o['expect_sat']:
                covers_total += 1
                if o['verdict'] == 'ok':
                    covers_sat += 1
                elif o['verdict'] == 'vacuous' and o['name'] == 'cover.requires':
                    errors.append('vacuous precondition: %s' % oid)
                elif o['verdict'] == 'vacuous':
                    # a path that reaches its end under contradictory assumptions proves nothing: vacuity guard (undecided)
                    undecided.append('%s path %d: reached under contradictory assumptions (vacuous)' % (oid, o['path']))
                continue
            if o['kind'] == 'applicability' and o['verdict'] != 'proved':
                # a condition under which the executor's model of the code applies could not be established: the unit is
                # undecided (exit 2), whatever the solver said - never a violation
                undecided.append('%s path %d: the loop rule does not apply (%s)' % (oid, o['path'], o['verdict']))
                continue
            n_obl += 1
            names.add(oid)
            if o['verdict'] == 'proved':
                n_dis += 1
                by_backend[o['backend']] = by_backend.get(o['backend'], 0) + 1
                if len(samples) < 6 and o['kind'] in ('post', 'inv.keep'):
                    samples.append(dict(obligation=oid, path=o['path'], verdict='unsat', backend=o['backend'], time_s=o['time_s']))
            elif o['verdict'] == 'undecided':
                undecided.append('%s path %d: solver %s (%s)' % (oid, o['path'], o['raw'], o.get('reason', '')))
            elif o['verdict'] == 'refuted':
                refuted_here.append(o)
        # one replay per distinct obligation name of the unit
        seen = set()
        for o in refuted_here:
            oid = obl_id(prop, unit, o)
            if oid in seen:
                continue
            seen.add(oid)
            lad = replay_ladder(unit, o, seed, tier)
            herr = [x for x in (lad.get('model_replay', {}).get('harness_error'), lad.get('search', {}).get('harness_error')) if x]
            if herr and lad['kind'] != 'confirmed':
                errors.append('native harness failed while replaying %s: %s' % (oid, herr[0][-300:]))
            rec = dict(obligation=oid, path=o['path'], note=o['note'], solver='sat (%s, %.3fs)' % (o['backend'], o['time_s']),
                       smt_head=o.get('smt_head'), model=o.get('model'), ladder=lad)
            wit = witness_text(rec)
            kf = [k for k in known if k['prop'] == prop and k['obligation'] == oid and (k['witness'] == '*' or k['witness'] in wit)]
            if kf:
                known_hits.append((oid, kf[0]['witness']))
                # a listed finding is reported as KNOWN-FINDING, not counted among the obligations claimed discharged
                n_obl -= sum(1 for x in refuted_here if obl_id(prop, unit, x) == oid)
            else:
                violations.append(rec)
    # declarations of the sidecar that the source contradicts: a field listed as immutable but assigned by some method
    used_classes = set()
    for f_ in funcs:
        used_classes.update(f_['qualname'].split('.<')[0].split('.'))
    for kname, fld, where, line in driver.immutable_conflicts(eng):
        if kname in used_classes:
            undecided.append('class %s: field %s is declared immutable in the sidecar but %s assigns it (line %d): every unit of the '
                             'class reads it as a constant' % (kname, fld, where, line))
    # thorough tier: every pure unit's contract is also evaluated natively on generated inputs.  On a tree where the
    # unit's obligations were all discharged a native failure means the engine or a spec function is wrong: checker failure.
    xcheck = dict(units=0, evaluations=0)
    if tier == 'thorough':
        from .contracts import CONTRACTS as _CC
        for unit in results:
            c_ = _CC[unit['qualname']]
            if c_.extra.get('method') or c_.closure_env or unit['error'] or unit['undecided']:
                continue
            if '@' in unit['qualname'] or any(p[1][0] == 'ref' for p in c_.params):
                continue        # needs an object / an import-time variant: exercised by the scenario stand-ins instead
            if any(o['verdict'] != 'proved' and not o['expect_sat'] for o in unit['obls']):
                continue
            job = job_for(unit['qualname'], unit['instance'], 'search')
            job['search'] = dict(n=300, seed=seed + 7, hints=job['hints'])
            r = native(job, timeout=300)
            xcheck['units'] += 1
            xcheck['evaluations'] += r.get('tried', 0)
            if r.get('harness_error'):
                errors.append('native cross-check of %s failed to run: %s' % (unit['qualname'], r['harness_error'][-300:]))
            elif r.get('hit'):
                errors.append('native evaluation of a PROVED contract failed (engine or spec wrong): %s failed %s on %s'
                              % (unit['qualname'], r['hit']['run']['failed'], json.dumps(r['hit']['inputs'])[:300]))
    # bounded stand-ins: same contract, native evaluation over generated inputs; never counted as discharged
    from .contracts import CONTRACTS
    for qn in driver.bounded_jobs(prop):
        c = CONTRACTS[qn]
        job = job_for(qn, None, 'search')
        n = c.extra['bounded'].get('n', 1000) * (1 if tier == 'quick' else 10)
        job['search'] = dict(n=n, seed=seed, hints=job['hints'])
        r = native(job, timeout=600)
        rec = dict(unit=qn, bound='%d generated inputs (seed %d)' % (n, seed), evaluations=r.get('tried', 0),
                   distinct=r.get('distinct', 0), reason=c.notes)
        bounded_units.append(rec)
        if r.get('harness_error'):
            errors.append('bounded stand-in for %s failed to run: %s' % (qn, r['harness_error'][-300:]))
        elif r.get('hit'):
            oid = '%s:%s:bounded.%s' % (prop, qn.split('afkak.', 1)[-1], r['hit']['run']['failed'][0])
            v = dict(obligation=oid, path=0, note='bounded stand-in', solver='none (bounded)', smt_head=None, model=None,
                     ladder=dict(kind='confirmed', rung='bounded-stand-in', inputs=r['hit']['inputs'], run=r['hit']['run']))
            wit = witness_text(v)
            kf = [k for k in known if k['prop'] == prop and k['obligation'] == oid and (k['witness'] == '*' or k['witness'] in wit)]
            if kf:
                known_hits.append((oid, kf[0]['witness']))
            else:
                violations.append(v)
        elif r.get('tried', 0) == 0:
            errors.append('bounded stand-in for %s evaluated zero inputs' % qn)
    # bounded scenario stand-ins (real objects, generated event sequences, oracles from the property statement)
    for scen, n, what in SCENARIO_UNITS.get(prop, []):
        nn = n * (1 if tier == 'quick' or n == 1 else 10)
        r = native(dict(mode='scenario', scenario=scen, n=nn, seed=seed, prop=prop), timeout=900)
        bound = ('exhaustive enumeration of every event sequence within the stated limits of the scenario (%d sequences)' % r.get('tried', 0)
                 if r.get('exhaustive') else '%d generated event sequences of length <= 14 (seed %d)' % (nn, seed))
        bounded_units.append(dict(unit='scenario:' + scen, bound=bound,
                                  evaluations=r.get('tried', 0), distinct=r.get('distinct', 0), reason=what))
        if r.get('harness_error'):
            errors.append('scenario stand-in %s failed to run: %s' % (scen, r['harness_error'][-400:]))
        elif r.get('hit'):
            failed = r['hit']['run']['failed'][0]
            if not failed.startswith(prop + ':'):
                # an oracle of another property fired: reported by that property's own check
                continue
            oid = '%s:scenario.%s:%s' % (prop, scen, failed.split(':', 1)[1])
            v = dict(obligation=oid, path=0, note='bounded scenario stand-in', solver='none (bounded)', smt_head=None, model=None,
                     ladder=dict(kind='confirmed', rung='bounded-scenario', inputs=r['hit']['inputs'], run=r['hit']['run']))
            wit = witness_text(v)
            kf = [k for k in known if k['prop'] == prop and k['obligation'] == oid and (k['witness'] == '*' or k['witness'] in wit)]
            if kf:
                known_hits.append((oid, kf[0]['witness']))
            else:
                violations.append(v)
        elif r.get('tried', 0) == 0:
            errors.append('scenario stand-in %s evaluated zero scenarios' % scen)
    rc = 0
    os.makedirs(os.path.join(VERIF, 'replays', prop), exist_ok=True)
    for oid, w in known_hits:
        print('KNOWN-FINDING: property=%s %s witness=%s' % (prop, oid, w))
    for v in violations:
        fn = re.sub(r'[^A-Za-z0-9_.#@-]+', '_', v['obligation'])[:150] + '.json'
        path = os.path.join(VERIF, 'replays', prop, fn)
        with open(path, 'w') as f:
            json.dump(v, f, indent=1, default=str)
        tail = '' if v['ladder']['kind'] == 'confirmed' else ' no-failing-input-found'
        print('VIOLATION property=%s replay=%s%s' % (prop, path, tail))
        rc = 1
    if rc == 0 and errors:
        rc = 3
    bounded_evals = sum(b.get('evaluations', 0) for b in bounded_units)
    if rc == 0 and n_obl == 0 and bounded_evals == 0:
        errors.append('zero obligations generated and zero bounded evaluations for %s' % prop)
        rc = 3
    if rc == 0 and undecided:
        rc = 2
    global XCHECK
    XCHECK = xcheck
    write_evidence(prop, tier, seed, eng, funcs, n_obl, n_dis, by_backend, solver_time, undecided, errors, violations,
                   known_hits, samples, covers_sat, covers_total, time.time() - t0, len(names), bounded_units)
    for e in errors:
        print('CHECKER-FAILURE', e)
    for u in undecided:
        print('UNDECIDED', u)
    print('%s tier=%s units=%d obligations=%d discharged=%d covers=%d/%d violations=%d known=%d undecided=%d wall=%.1fs exit=%d'
          % (prop, tier, len(results), n_obl, n_dis, covers_sat, covers_total, len(violations), len(known_hits), len(undecided),
             time.time() - t0, rc))
    return rc


def witness_text(rec):
    lad = rec['ladder']
    if lad.get('kind') == 'confirmed':
        return json.dumps(lad.get('inputs'), sort_keys=True, default=str) + ' ' + ' '.join(lad['run'].get('failed', []))
    return 'no-failing-input-found'


def write_evidence(prop, tier, seed, eng, funcs, n_obl, n_dis, by_backend, solver_time, undecided, errors, violations,
                   known_hits, samples, covers_sat, covers_total, wall, distinct, bounded_units=()):
    from .contracts import CONTRACTS
    meta = PROP_META.get(prop, {})
    trusted = list(TRUSTED_BASE) + meta.get('trusted', [])
    for qn, c in CONTRACTS.items():
        if prop in c.all_props():
            for a in c.extra.get('assumes', []):
                if a not in trusted:
                    trusted.append(a)
    # callees that the units of this property see through a contract nobody verifies: `trusted` ones and methods declared
    # `inline_only` without `inline_at_calls` (applied at call sites as "assert the object invariant, forget the declared
    # frame, assume the listed clauses"; their own bodies are not checked against it)
    classes = set(f['qualname'].rsplit('.', 1)[0].split('.<')[0] for f in funcs)
    classes |= set(c_.rsplit('.', 1)[0] for c_ in list(classes))
    for qn, c in CONTRACTS.items():
        unverified = c.trusted or (c.extra.get('inline_only') and c.extra.get('method') and not c.extra.get('inline_at_calls')
                                   and not c.inline)
        if not unverified or qn.rsplit('.', 1)[0] not in classes:
            continue
        clauses = sorted(n_.split('[')[0] for n_ in list(c.ensures) + list((c.extra.get('assumed_ensures') or {})))
        line = ('callee represented by an UNVERIFIED contract (%s): %s - frame %s; assumed clauses: %s%s'
                % ('trusted' if c.trusted else 'havoc-only stand-in for a method outside the subset', qn.split('afkak.')[-1],
                   c.extra.get('modifies') if c.extra.get('modifies') is not None else 'everything mutable',
                   ', '.join(clauses) or 'none',
                   '; assumed to re-establish the object invariant' if c.extra.get('method') and c.extra.get('establishes_invariant', True) else ''))
        if line not in trusted:
            trusted.append(line)
    proved_all = n_obl > 0 and n_dis == n_obl and not undecided and not errors
    level = PROP_LEVEL.get(prop, 'proof')
    bl = list(bounded_units)
    expl = meta.get('explanation', '')
    if level == 'other':
        expl = ('Mixed evidence: %d deductive obligations discharged for the units under contract; the rest of the property is '
                'covered by bounded stand-ins only (labelled, never counted as discharged): %s' % (
                    n_dis, '; '.join('%s: %s, %d evaluated' % (b['unit'], b['bound'], b['evaluations']) for b in bl) or 'none'))
    ev = dict(
        property_id=prop, tier=tier, seed=seed, level=level,
        coverage=dict(
            obligations=n_obl, discharged=n_dis, distinct_obligation_names=distinct,
            checker_cmd='cd /verif && ./check %s --%s   (pyvc: VC generation from the ast of /repo/afkak/*.py, z3 %s then /usr/bin/cvc5)'
                        % (prop, tier, _z3ver()),
            trusted_base=trusted,
            functions_under_contract=funcs,
            by_backend=by_backend, solver_time_s=round(solver_time, 3),
            covers_sat=covers_sat, covers_total=covers_total,
            undecided=undecided, checker_failures=errors,
            bounded_units=list(bounded_units), native_cross_check=XCHECK,
            violations=[dict(obligation=v['obligation'], confirmed=v['ladder']['kind'] == 'confirmed') for v in violations],
            known_findings=[dict(obligation=o, witness=w) for o, w in known_hits],
            samples=samples or [dict(note='no discharged post/invariant obligation to sample')],
            source_sha256={k: v for k, v in driver.file_hashes(eng).items()},
            all_discharged=proved_all,
            explanation=expl,
            evaluations=sum(b.get('evaluations', 0) for b in bl) + n_obl,
            distinct_nontrivial=sum(b.get('distinct', 0) for b in bl) + distinct,
            rule='deductive part: one evaluation per obligation instance (named obligation x path); bounded part: generated '
                 'scenarios/inputs, distinct = distinct event scripts / argument tuples',
        ),
        assumptions=ASSUMPTIONS + meta.get('assumptions', []) + entry_assumptions(funcs) + uncontracted_methods(eng, funcs)
        + external_models(funcs),
        wall_s=round(wall, 2), violations=len(violations),
    )
    os.makedirs(os.path.join(VERIF, 'evidence'), exist_ok=True)
    with open(os.path.join(VERIF, 'evidence', prop + '.json'), 'w') as f:
        json.dump(ev, f, indent=1, default=str)


def entry_assumptions(funcs):
    """preconditions of entry points (methods and callbacks that Twisted or the application invokes): proved at every call
    made from code under contract (`pre@...` obligations), ASSUMED when the caller is outside it"""
    from .contracts import CONTRACTS
    out = []
    for f in funcs:
        c = CONTRACTS.get(f['qualname'])
        if c is None or not c.extra.get('entry_point') or not c.requires:
            continue
        line = ('precondition of entry point %s, assumed when it is invoked from outside the code under contract: %s'
                % (f['qualname'].split('afkak.')[-1], ' and '.join('(%s)' % r for r in c.requires)))
        if line not in out:
            out.append(line)
    return out


def external_models(funcs):
    """library / collaborator objects the units talk to are modelled classes (no source under contract): which methods are
    assumed to return without calling back into the object under verification, and which are treated as re-entrant"""
    from .contracts import CONTRACTS
    from .heap import KLASSES
    out = []
    seen = set()
    for f in funcs:
        c = CONTRACTS.get(f['qualname'])
        if c is None:
            continue
        texts = [c.extra.get('sig', '') or ''] + [str(v) for v in (c.closure_env or {}).values()]
        for part in f['qualname'].split('.'):
            k = KLASSES.get(part)
            if k is not None:
                texts += [str(t) for t, _ in k.fields.values()]
        blob = ' '.join(texts)
        for kname, k in KLASSES.items():
            if not k.external or not k.methods or kname in seen:
                continue
            if ('Ref_' + kname) in blob or ("'ref', '%s'" % kname) in blob:
                seen.add(kname)
                re_ = sorted(m for m, d in k.methods.items() if d.get('reentrant'))
                nre = sorted(m for m, d in k.methods.items() if not d.get('reentrant'))
                out.append('modelled collaborator %s (no source under contract): %s assumed NOT to call back into the object under '
                           'verification before returning%s; declared exceptions only'
                           % (kname, ', '.join(nre) or '-', ('; treated as re-entrant (full excursion): ' + ', '.join(re_)) if re_ else ''))
    return out


def uncontracted_methods(eng, funcs):
    """rely/guarantee reasoning covers the entry points under contract; the other methods of the same class may run during an
    excursion too - that they keep the object invariant and the rely clauses is an assumption, listed here by name"""
    from .contracts import CONTRACTS
    from .heap import KLASSES
    out = []
    used = set()
    for f in funcs:
        parts = f['qualname'].split('.<')[0].split('.')
        for i in range(len(parts)):
            if parts[i] in KLASSES and not KLASSES[parts[i]].external:
                used.add(('.'.join(parts[:i]), parts[i]))
    for modname, kname in sorted(used):
        m = eng.repo.modules.get(modname)
        ci = m.classes.get(kname) if m is not None else None
        if ci is None or not (KLASSES[kname].invariant or KLASSES[kname].rely):
            continue
        un = []
        for n in ci.methods:
            if n.startswith('__') and n.endswith('__'):
                continue
            cands = [c for q, c in CONTRACTS.items() if q == '%s.%s.%s' % (modname, kname, n) or q.startswith('%s.%s.%s@' % (modname, kname, n))]
            ok = any(not c.trusted and not (c.extra.get('inline_only') and not c.extra.get('inline_at_calls')) for c in cands)
            if not ok:
                un.append(n)
        if un:
            out.append('methods of %s.%s without a verified contract (assumed to preserve its object invariant and rely clauses '
                       'if they run during an excursion): %s' % (modname.split('afkak.')[-1], kname, ', '.join(un)))
    return out


def _z3ver():
    import z3
    return z3.get_version_string()


def replay_file(path):
    rec = json.load(open(path))
    print(json.dumps(rec.get('ladder', {}).get('run', rec), indent=1)[:2000])
    return 0


TRUSTED_BASE = [
    'pyvc itself: translation of the supported Python subset to SMT (ty/engine/builtins/loops/specs), path splitting, '
    'modular call rule, loop-invariant rule, fuel-style unfolding of recursive spec functions',
    'z3 (python API) and /usr/bin/cvc5 as decision procedures',
    'struct pack/unpack as big-endian two\'s-complement bijections raising struct.error out of range (uninterpreted '
    'u_*/p_* with range and length axioms)',
    'str.encode/bytes.decode as uninterpreted injective conversions with validity predicates; every str is UTF-8 encodable',
    'Python ints are mathematical integers (no machine arithmetic assumption is needed); floats are treated as reals',
]

ASSUMPTIONS = [
    'extraction drops: docstrings, comments, type annotations, __repr__, logging calls (arguments not evaluated)',
    'a callee under contract is represented by its contract only; callees without contract make the unit undecided',
    'exceptions not modelled: MemoryError, RecursionError, KeyboardInterrupt',
]

PROP_META = {}
XCHECK = {}
PROP_LEVEL = {'C07': 'other', 'C08': 'other', 'C15': 'other'}

SCENARIO_UNITS = {
    'C12': [('consumer_e2e', 1500, 'Consumer + real KafkaClient + codec over a simulated broker: delivered content equals the log, truncated tails never delivered')],
    'C13': [('consumer_e2e', 1500, 'Consumer + real KafkaClient + codec over a simulated broker: no processor call, request or timer after stop; start() fires once'),
            ('consumer', 3000, 'Consumer.stop()/shutdown() (500+ symbolic paths) and their interleavings with replies, timers and processor results')],
    'C03': [('consumer_e2e', 1500, 'Consumer + real KafkaClient + codec over a simulated broker and coordinator: every OffsetCommit carries a successfully processed offset'),
            ('consumer', 3000, 'commit()/auto-commit chains across processor results, commit replies failed out of order and retried: a committed offset was successfully processed, every commit request (first attempt or retry) carries the last-processed offset of that moment')],
    'C02': [('consumer_e2e', 1500, 'Consumer + real KafkaClient + codec over a simulated broker (compaction gaps, gzip wrappers in both formats starting before the requested offset, truncation, errors): delivery is a gap-free in-order run of the log from the start position'),
            ('consumer', 3000, 'delivery order / no concurrent invocation across fetch replies, retries and compaction gaps')],
    'C04': [('producer_e2e', 4000, 'every produce request a Producer hands to a connection, parsed by an independent reader: header version vs message format, wrapper format vs wrapped messages, correlation id'),
            ('api_discovery', 1, 'version used by the request that triggers discovery and by later ones, for every discovery outcome (table, unordered sparse table, error with / without table, no answer)'),
            ('magic_fallback', 1, 'message format chosen before the API version is known (Producer._send_requests + failed discovery): deterministic reproducer')],
    'C09': [('producer_e2e', 4000, 'Producer + real KafkaClient + codec over simulated broker connections: acknowledged payloads never re-sent, per-partition order inside every request, transmissions bounded by the attempt limit')],
    'C19': [('producer_e2e', 4000, 'Producer + real KafkaClient over simulated broker connections: no produce request reaches a connection after stop()')],
    'C01': [('producer_e2e', 4000, 'Producer + real KafkaClient + codec over simulated broker connections answering ok / error codes / dropping / staying silent, leader moves, cancellations: success only with an error-free acknowledgement from the leader of exactly those messages, result names topic and partition, fires exactly once'),
            ('broker_aware', 300, 'KafkaClient._send_broker_aware_request with acks=0/1 and failing brokers (polymorphic @inlineCallbacks code)')],
    'C07': [('broker_aware', 300, 'every payload routed to its leader / the coordinator, one request per broker with exactly its payloads, responses in payload order whatever order brokers answer in, failed payloads accounted for exactly once, no request when a payload has no leader'),
            ('broker_unaware', 1, 'fallback order of broker-agnostic requests: connected brokers, other known brokers, every bootstrap host, then unavailable'),
            ('metadata_merge', 300, 'an existing broker connection is told the address the current metadata names for its node (requests would otherwise keep going to the old address)')],
    'C20': [('client_close', 400, 'nested close aggregates (_close_brokerclients) across metadata refreshes and close()'),
            ('bootstrap_close', 1, 'operation pending on a bootstrap connection attempt at close(): deterministic reproducer'),
            ('bootstrap_late_events', 1, 'bootstrap connection attempt resolving after close(): nothing written, no new attempt or timer, connection dropped')],
    'C08': [('metadata_merge', 300, '_merge_topic_metadata / reset_topic_metadata / _update_brokers (dict-of-dict code with KeyError control flow): topic view, broker addresses, connections closed by a full refresh only'),
            ('handle_responses', 1, '_handle_responses: which answers invalidate which cached routing'),
            ('broker_aware', 300, 'a failed send invalidates the cached routing')],
    'C10': [('brokerclient', 600, 'real _KafkaBrokerClient over mock connections with correlation ids that do not ascend: every unanswered request re-sent once per connection, in the order issued')],
    'C06': [('frames', 1, 'real KafkaProtocol over a StringTransport: impossible announced lengths drop the connection, legal frames are delivered once, for every chunking (exhaustive over the listed cases)'),
            ('brokerclient', 300, 'close()/cancel/response interleavings with re-entrant cancellation from callbacks')],
    'C15': [('group', 400, 'the leader path end to end: the assignment sent in SyncGroup covers the CURRENT partitions of the subscribed topic exactly once across rebalances with a changing partition map'),
            ('assignment', 300, '_round_robin_assignment (sets, itertools.cycle, nested defaultdict) over member-order permutations, also after an abandoned earlier rebalance on the same protocol object')],
    'C18': [('partitioner', 300, 'round-robin fairness counted over k*n-selection windows with in-place and replaced lists (the per-step cycle contract is proved; the window count is its arithmetic consequence, not machine-checked); pure_murmur2 re-compared natively with the Java transcription')],
    'C16': [('group', 400, 'ConsumerGroup consumer creation/teardown and requests after stop across the @inlineCallbacks join sequence')],
    'C17': [('group', 400, 'never-idle oracle over generated fault sequences (coordinator errors, consumer errors, failing partition lookups, membership changes)'),
            ('load_topic_partitions', 1, 'the leader\'s partition lookup (KafkaClient._load_topic_partitions: varargs, a name rebound from tuple to dict - outside the symbolic subset) over every sequence of up to 4 metadata answers: ends with the first healthy answer and its partitions, polls with the per-attempt back-off only while the latest answer is unhealthy')],
}


if __name__ == '__main__':
    sys.exit(main())
