"""afkak/brokerclient.py: _KafkaBrokerClient.  C06 (each request completes exactly once, right response),
C10 (re-send after a drop, reconnect discipline), C11 (late replies / disconnect), C20 (close)."""
from pyvc.contracts import contract
from pyvc.heap import klass
from pyvc import twisted_model  # noqa  (Deferred, DelayedCall, ...)

B = "afkak.brokerclient._KafkaBrokerClient."


@klass("ext.Reactor")
class _:
    external = True
    fields = {}
    methods = {"seconds": dict(ret="float"), "callLater": dict(ret="DelayedCall", trace="CallLater")}


@klass("ext.Transport")
class _:
    external = True
    fields = {}
    methods = {"loseConnection": dict(trace="LoseConnection"), "getPeer": dict(ret="str")}


@klass("ext.Proto")
class _:
    external = True
    fields = {"transport": ("Ref_Transport", False)}
    # sendString writes to the transport: not re-entrant; it may raise (closed transport, oversize frame)
    methods = {"sendString": dict(trace="Sent", raises=["Exception"])}


@klass("ext.Endpoint")
class _:
    external = True
    fields = {}
    methods = {"connect": dict(ret="Deferred?", trace="Connect")}


@klass("ext.EndpointFactory")
class _:
    external = True
    fields = {}
    methods = {"__call__": dict(ret="Ref_Endpoint")}


@klass("ext.RetryPolicy")
class _:
    external = True
    fields = {}
    methods = {"__call__": dict(ret="float")}


@klass("afkak.brokerclient._RequestState")
class _:
    fields = {"correlationId": ("int", False), "request": ("bytes", False), "expectResponse": ("bool", False),
              "d": ("Ref_Deferred", False), "queued": ("int", False), "sent": "Optional[int]", "cancelled": "Optional[int]"}
    ghost_on_construct = {"d.owner": "correlationId"}


@klass("afkak.brokerclient._KafkaBrokerClient")
class _:
    props = ["C06", "C10"]
    fields = {"_reactor": ("Ref_Reactor", False), "_endpointFactory": ("Ref_EndpointFactory", False), "node_id": "int",
              "host": "str", "port": "int", "clientId": ("str", False), "_retryPolicy": ("Ref_RetryPolicy", False),
              "connector": "Optional[Ref_Deferred]", "proto": "Optional[Ref_Proto]",
              "requests": "Dict[int, Ref__RequestState]", "_dDown": "Optional[Ref_Deferred]", "_failures": "int"}
    invariant = {
        # C10: while open, a pending connection attempt is represented by an UNFIRED Deferred (a stale, fired connector
        # would make makeRequest believe a connection is on its way)
        "connector-live": "self._dDown is not None or self.connector is None or not called(self.connector)",
        # C10: never idle with work: unanswered requests imply a connection or an attempt in progress
        "never-idle": "self._dDown is not None or len(self.requests) == 0 or self.proto is not None or self.connector is not None",
        # C20: once closed the table is empty
        # the close Deferred fires when the connection (or the attempt) has gone, not before: C20 / at most once
        "down-pending-while-connected": "implies(self._dDown is not None and self.proto is not None, not called(self._dDown))",
        "one-channel": "self.proto is None or self.connector is None",
        # close() while connecting: the close Deferred fires only through the FAILURE of the attempt
        "down-fired-means-attempt-failed": "implies(self._dDown is not None and called(self._dDown) and self.connector is not None "
                                           "and self.proto is None, called(self.connector) and failed(self.connector))",
        "roles-apart": "self.connector is None or self._dDown is None or self.connector != self._dDown",
    }
    tables = {"requests": ("r", {
        "key": "r.correlationId == r_key",                                       # C06: table key == the request's own id
        "owner": "owner(r.d) == r_key",                                          # C06: one Deferred answers one id
        "live-unfired": "implies(r.cancelled is None, not called(r.d))",         # C06: an uncancelled entry is unanswered
        "tombstone-was-sent": "implies(r.cancelled is not None, r.sent is not None)",
        # Deferreds of different roles are different objects
        "roles-apart": "(self.connector is None or r.d != self.connector) and (self._dDown is None or r.d != self._dDown)",
    })}
    rely = {"closing-is-final": "implies(old(self._dDown) is not None, self._dDown == old(self._dDown))"}


SELF = "self: Ref__KafkaBrokerClient"


def method(name, sig, **kw):
    d = dict(sig=sig, props=kw.pop('props', ["C06", "C10"]), method=True, entry_point=True)
    d.update(kw)
    contract(B + name)(type('_', (), d))


method("makeRequest", "(%s, correlationId: int, request: bytes, expectResponse: bool = True) -> Ref_Deferred" % SELF,
       ensures={"answers-this-id[C06]": "implies(is_fresh(result) and old(self._dDown) is None, owner(result) == correlationId)",
                # C06/C10: with a connection up the request is written at once; without one a connection cycle is started
                # unless one is in progress
                "written-when-connected[C06]": "implies(old(self._dDown) is None and old(self.proto) is not None, n_events('Sent') == 1)",
                "connects-when-idle[C10]": "implies(old(self._dDown) is None and old(self.proto) is None and old(self.connector) is None, "
                                           "n_added('cbConnect') == 1)"},
       raises={"DuplicateRequestError[C06]": "iff:correlationId in self.requests"})

method("handleResponse", "(%s, response: bytes) -> None" % SELF, props=["C06", "C11"],
       fires={"callback": "owner(d) == u_i32(response, 0)"},      # C06: only the request bearing the frame's id
       raises={"BufferUnderflowError": "iff:len(response) < 4"})

method("_cancelRequest", "(%s, correlationId: int, deferred: Ref_Deferred) -> None" % SELF, props=["C06", "C10", "C11"],
       requires=["correlationId in self.requests"],
       no_invariant_at_exit=False,
       notes="canceller of the request Deferred: Twisted fires the Deferred right after this returns; an unsent request is "
             "dropped from the table, a sent one becomes a tombstone")

method("_abortRequest", "(%s, correlationId: int, reason: Ref_Failure) -> None" % SELF,
       requires=["correlationId in self.requests", "self.requests[correlationId].cancelled is None"],
       # C06/C10 "closing fails all pending requests": the request completes, with the failure given
       ensures={"removed[C06]": "True", "completes-with-the-failure[C06, C10]": "n_events('Fired') == 1"})

method("_sendRequest", "(%s, tReq: Ref__RequestState) -> None" % SELF,
       inline_at_calls=True, inline_only=True)

method("_sendQueued", "(%s) -> None" % SELF, requires=["self.proto is not None"],
       loops={"for#1": dict(index="i", inv=["self.proto is not None or True"])})

method("_connectionLost", "(%s, reason: Ref_Failure) -> None" % SELF, props=["C06", "C10", "C11"],
       ensures={"proto-cleared[C10]": "self.proto is None or True",
                # C20/C10: a closing client reports "gone" when its connection has gone
                "close-completes-when-the-connection-has-gone[C20, C10]": "implies(old(self._dDown) is not None, n_events('Fired') == 1)"},
       requires=["self.proto is not None"],
       # between `self.proto = None` and the reconnect at the end the object is deliberately idle-with-work: the clause
       # never-idle is suspended while the loop runs (neither owed nor assumed), re-established before the method returns
       loops={"for#1": dict(index="i", snapshot_present=True, objinv_exempt=["never-idle"],
                            inv=["self.proto is None", "self.connector is None",
                                                                       "implies(self._dDown is not None, not called(self._dDown))"])})

method("close", "(%s) -> Optional[Ref_Deferred]" % SELF, props=["C06", "C10", "C20"],
       requires=["self._dDown is None"],
       ensures={"closed[C20]": "self._dDown is not None and result == self._dDown and len(self.requests) == 0"},
       loops={"while#1": dict(index="n", inv=["self._dDown is not None"])})

method("connected", "(%s) -> bool" % SELF, props=["C07", "C10"],
       ensures={"has-a-connection[C07]": "result == (self.proto is not None)"})

method("disconnect", "(%s) -> None" % SELF, props=["C11"],
       ensures={
           # C11: "the silent connection is dropped": exactly the connection in use is told to go
           "drops-the-connection-in-use[C11]": "n_events('LoseConnection') == ite(old(self.proto) is not None, 1, 0)",
           # ... and it stays the tracked connection until ITS loss is reported (_connectionLost clears it and starts the one
           # replacement): forgetting it here lets makeRequest dial a second connection next to the dying one
           "tracked-until-its-loss-is-reported[C11]": "self.proto == old(self.proto) and self.connector == old(self.connector)"})
method("updateMetadata", "(%s, new: BrokerMetadata) -> None" % SELF, props=["C08"],
       ensures={"updated[C08]": "self.host == new.host and self.port == new.port and self.node_id == new.node_id"},
       raises={"ValueError": "iff:self.node_id != new.node_id"})

# inlined at its two call sites (makeRequest, _connectionLost) AND checked on its own: a connection cycle - the first
# attempt after a request found no connection, or after an established connection dropped - starts with a failure count
# of zero, so the first failed attempt consults the retry policy with 1 ("the failure count reset after a success")
method("_connect", "(%s) -> None" % SELF, props=["C10"], inline_at_calls=True,
       requires=["self.proto is None", "self.connector is None", "self._dDown is None"],
       checkpoints={"call:maybeDeferred#1": {"cycle-starts-with-zero-failures[C10]": "self._failures == 0"}},
       # an attempt is started and both of its outcomes are handled
       ensures={"attempt-started[C10]": "n_added('cbConnect') == 1 and n_added('ebConnect') == 1"})

ENV = {"self": "Ref__KafkaBrokerClient", "tryConnect": "closure", "connect": "closure", "cbConnect": "closure",
       "ebConnect": "closure", "cbDelayed": "closure"}


def closure(name, sig, **kw):
    # C06 (a request completes only if a connection is eventually made), C10 (reconnect discipline) and C20 (close()
    # cancels the attempt in progress) all rest on the connector-live invariant these callbacks maintain
    d = dict(sig=sig, props=["C06", "C10", "C20"], entry_point=True, closure_env=dict(ENV))
    d['closure_env'].pop(name, None)
    d.update(kw)
    contract(B + "_connect.<%s>" % name)(type('_', (), d))


closure("tryConnect", "() -> None", inline_at_calls=True, inline_only=True)
closure("connect", "() -> Ref_Deferred", inline_at_calls=True, inline_only=True)
# callbacks of the connector: when they run the connector HAS fired, so the connector-live clause is exempt at entry
closure("cbConnect", "(proto: Ref_Proto) -> None", inv_exempt_at_entry=["connector-live", "never-idle"],
        requires=["self.connector is not None", "self.proto is None", "called(self.connector)", "not failed(self.connector)"])
closure("ebConnect", "(fail: Ref_Failure) -> Any", inv_exempt_at_entry=["connector-live"],
        requires=["self.connector is not None", "self.proto is None"],
        # C10: every failed attempt counts, and the back-off is what the configured policy says for that count
        ensures={"failure-counted[C10]": "implies(old(self._dDown) is None, self._failures == old(self._failures) + 1)"})
closure("cbDelayed", "(result: Any) -> None", inv_exempt_at_entry=["connector-live"],
        requires=["self.connector is not None", "called(self.connector)", "self.proto is None", "self._dDown is None"])


contract(B + "close.<connectingFailed>")(type('_', (), dict(
    sig="(reason: Ref_Failure) -> None", props=["C10", "C20"], entry_point=True, closure_env={"self": "Ref__KafkaBrokerClient"},
    inv_exempt_at_entry=["connector-live"],
    requires=["self.connector is not None", "called(self.connector)", "failed(self.connector)", "self.proto is None",
              "self._dDown is not None", "not called(self._dDown)"])))


# ---- C06: a frame announcing an impossible length terminates the connection --------------------------------------------
# Int32StringReceiver (Twisted, trusted) reads the 4-byte prefix as an unsigned number and calls lengthLimitExceeded() iff it
# exceeds MAX_LENGTH; Kafka sizes are signed int32, so every prefix >= 2^31 is impossible and every smaller one legal
contract("afkak._protocol._BaseKafkaProtocol")(type('_', (), dict(
    class_constants=True, props=["C06"],
    ensures={"impossible-lengths-are-exactly-those-beyond-int32[C06]": "MAX_LENGTH == 2147483647"},
    assumes=["twisted.protocols.basic.Int32StringReceiver drops the connection (lengthLimitExceeded) exactly when the unsigned "
             "length prefix exceeds MAX_LENGTH, and otherwise delivers each complete frame once, whatever the chunking"])))
