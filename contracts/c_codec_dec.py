"""Contracts for the response decoders of afkak/kafkacodec.py.  C05: decoded == independent parser spec;
C12: every completed loop iteration strictly advances the cursor (work bounded by the input length)."""
from pyvc.contracts import contract
from . import c_util  # noqa

ALLOWED_DECODE_ERRORS = {
    "BufferUnderflowError": "True", "ProtocolError": "True", "AttributeError": "True", "UnicodeDecodeError": "True",
}


def two_level(qualname, prefix, item, closure_env=None, throttle=False):
    d = dict(
        sig="(data: bytes) -> List[%s]" % item,
        kind="generator", item=item, props=["C05", "C12"],
        ensures={"func[C05]": "result == %s_items(data)" % prefix,
                 },
        raises=dict(ALLOWED_DECODE_ERRORS),
        loops={
            "for#1": dict(index="i", decreases="len(data) - cur", inv=[
                "cur == {p}_topics_pos(data, 4, i)".format(p=prefix),
                "yielded == {p}_items_outer(data, 4, i)".format(p=prefix),
                "num_topics == {p}_topics_cnt(data, 4)".format(p=prefix),
                "4 <= cur and cur <= len(data)"]),
            "for#1/for#1": dict(index="j", decreases="len(data) - cur", inv=[
                "cur == {p}_parts_pos(data, {p}_topics_e_pos_partitions(data, {p}_topics_pos(data, 4, i)), j)".format(p=prefix),
                "yielded == {p}_items_outer(data, 4, i) + {p}_items_inner(data, {p}_topics_pos(data, 4, i), "
                "{p}_topics_e_pos_partitions(data, {p}_topics_pos(data, 4, i)), j)".format(p=prefix),
                "num_partitions == {p}_parts_cnt(data, {p}_topics_e_pos_partitions(data, {p}_topics_pos(data, 4, i)))".format(p=prefix),
                "topic == {p}_topics_e_topic(data, {p}_topics_pos(data, 4, i))".format(p=prefix),
                "i < num_topics",
                "pre(cur) <= cur",
                "num_topics == {p}_topics_cnt(data, 4)".format(p=prefix),
                "4 <= cur and cur <= len(data)"]),
        })
    if closure_env:
        d['closure_env'] = closure_env
    contract(qualname)(type('_', (), d))


two_level("afkak.kafkacodec.KafkaCodec.decode_offset_commit_response", "ocr", "OffsetCommitResponse")
two_level("afkak.kafkacodec.KafkaCodec.decode_offset_fetch_response", "ofr", "OffsetFetchResponse")
two_level("afkak.kafkacodec.KafkaCodec.decode_produce_response.<v0>", "prv0", "ProduceResponse")
two_level("afkak.kafkacodec.KafkaCodec.decode_produce_response.<v2>", "prv2", "ProduceResponse")
