"""Registers struct types: field names/order/defaults come from the class definitions in /repo (read every run),
field *types* from contracts/types.py.  A mismatch in names or order is a checker failure (exit 3)."""
from . import ty as T


class TypeSyncError(Exception):
    pass


def register(repo, struct_types):
    common = repo.modules['afkak.common']
    pending = dict(struct_types)
    # register in dependency order (a struct may mention another)
    progress = True
    while pending and progress:
        progress = False
        for name in list(pending):
            fields = pending[name]
            ci = common.classes.get(name)
            if ci is None:
                raise TypeSyncError('struct %s not found in afkak/common.py' % name)
            repo_fields = [f for f, _ in ci.attr_fields]
            if repo_fields != [f for f, _ in fields]:
                raise TypeSyncError('struct %s: fields in /repo %s differ from contracts/types.py %s'
                                    % (name, repo_fields, [f for f, _ in fields]))
            try:
                tys = [T.parse_ty(t) for _, t in fields]
            except ValueError:
                continue
            T.STRUCTS[name] = [(f, ty, d) for (f, _), ty, (_, d) in zip(fields, tys, ci.attr_fields)]
            del pending[name]
            progress = True
    if pending:
        raise TypeSyncError('cannot resolve struct types: %s' % sorted(pending))
