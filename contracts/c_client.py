"""afkak/client.py: KafkaClient.  C11 (every broker request bounded by the client timeout), C20 (close), C04 (version choice)."""
from pyvc.contracts import contract
from pyvc.heap import klass
from . import c_brokerclient  # noqa

K = "afkak.client.KafkaClient."


@klass("ext.BrokerClientAPI")
class _:
    external = True
    fields = {"host": ("str", False), "port": ("int", False)}
    # makeRequest may fire the returned Deferred at once (closed client / no-response request written)
    methods = {"makeRequest": dict(ret="Deferred?", trace="MakeRequest", raises=["DuplicateRequestError"]),
               "disconnect": dict(trace="Disconnect"), "close": dict(ret="Deferred?", trace="CloseBroker", reentrant=True),
               "connected": dict(ret="bool"), "updateMetadata": dict(trace="UpdateMetadata", raises=["ValueError"])}


@klass("afkak.client.KafkaClient")
class _:
    props = ["C11", "C20", "C04"]
    fields = {"reactor": ("Ref_Reactor", False), "timeout": ("float", False), "_disconnect_on_timeout": ("bool", False),
              "_closing": "bool", "_api_versions": "Optional[List[ApiVersion]]", "_api_versions_zero": "bool",
              "correlation_id": "int", "close_dlist": "Optional[Ref_Deferred]",
              "clients": "Optional[Dict[int, Ref_BrokerClientAPI]]", "_brokers": "Dict[int, BrokerMetadata]",
              "_endpoint_factory": ("Ref_EndpointFactory", False), "clientId": ("Any", False), "_retry_policy": ("Any", False),
              "_bootstrap_hosts": "List[Tuple[str, int]]", "_clientIdBytes": ("bytes", False),
              # cached topic view (C08 / C18): partition ids per topic, leader per partition, per-topic error
              "topic_partitions": "Dict[str, List[int]]", "topic_errors": "Dict[str, int]",
              "partition_meta": "Dict[TopicAndPartition, PartitionMetadata]",
              "topics_to_brokers": "Dict[TopicAndPartition, Optional[BrokerMetadata]]"}
    invariant = {"timeout-positive": "self.timeout > 0",
                 # the table of broker clients is dropped by close() only, after the client has been marked closed
                 "clients-present-while-open": "self._closing or self.clients is not None"}
    rely = {"closing-is-final": "implies(old(self._closing), self._closing)",
            # once closed the table of broker clients is gone for good (nothing creates clients any more)
            "no-clients-once-closed": "implies(old(self._closing) and old(self.clients) is None, self.clients is None)"}


SELF = "self: Ref_KafkaClient"


def method(name, sig, **kw):
    d = dict(sig=sig, props=kw.pop('props', ["C11"]), method=True, entry_point=True)
    d.update(kw)
    contract(K + name)(type('_', (), d))


contract("afkak.kafkacodec._ReprRequest")(type('_', (), dict(sig="(request: bytes) -> Any", trusted=True, props=[])))

method("_next_id", "(%s) -> int" % SELF, props=["C06", "C04"],
       requires=["0 <= self.correlation_id and self.correlation_id < 2147483648"],
       ensures={"int32-range[C04]": "0 <= result and result < 2147483648 and result == self.correlation_id",
                "advances[C06]": "result == (old(self.correlation_id) + 1) % 2147483648"})

method("_make_request_to_broker",
       "(%s, broker: Ref_BrokerClientAPI, correlationId: int, request: bytes, expectResponse: bool = True, min_timeout: Optional[float] = None) -> Ref_Deferred" % SELF,
       raises={"DuplicateRequestError": "True"},
       # C11: whatever kind of request (also one that expects no response, which may sit queued behind a connection that
       # never comes up): exactly one request handed to the broker client and exactly one timer armed for it
       ensures={"every-request-gets-a-timer[C11]": "n_events('Timer') == 1 and n_events('MakeRequest') == 1",
                # C11 "the timer is released as soon as the reply arrives first": the completion handler is attached
                "completion-handler-attached[C11]": "n_added('_mrtb_cb') == 1"},
       checkpoints={"call:addBoth#1": {
           # C11: exactly one timer per request, armed with the client timeout (or the stated longer minimum)
           "one-timer-with-client-timeout[C11]": "n_events('Timer') == 1 and event_arg('Timer', 0, 0) == "
                                                 "ite(min_timeout is None, self.timeout, max(self.timeout, min_timeout))",
           "one-request[C11]": "n_events('MakeRequest') == 1"}})

ENV = {"self": "Ref_KafkaClient", "broker": "Ref_BrokerClientAPI", "d": "Ref_Deferred", "dc": "Ref_DelayedCall",
       "failure": "Optional[Ref_Failure]", "timeout": "float", "issued": "float", "rr": "Any"}

contract(K + "_make_request_to_broker.<_mrtb_cb>")(type('_', (), dict(
    sig="(result: Any) -> Any", props=["C11"], entry_point=True, closure_env=dict(ENV),
    ensures={"timer-released[C11]": "not active(dc)",
             "timeout-overrides-result[C11]": "implies(failure is not None, result == failure)",
             "reply-passed-on-unchanged[C11, C06]": "implies(failure is None, result == p_result)"},
    notes="`result == failure` compares the returned value with the recorded timeout Failure")))

contract(K + "_make_request_to_broker.<_mrtb_timeout>")(type('_', (), dict(
    sig="() -> None", props=["C11"], entry_point=True, closure_env=dict(ENV),
    requires=["failure is None"],
    checkpoints={"fire:cancel#1": {"failure-recorded-before-cancel[C11]": "failure is not None and exc_is(failure, 'RequestTimedOutError')"}},
    ensures={"cancelled[C11]": "n_events('Cancel') == 1",
             "disconnects-iff-configured[C11]": "n_events('Disconnect') == ite(self._disconnect_on_timeout, 1, 0)"})))


# ---- C08: which answers invalidate which cached routing -------------------------------------------------------------
# reset_topic_metadata / reset_consumer_group_metadata work on dict-of-list caches outside the symbolic subset: they are
# represented by TRUSTED contracts here (listed as an assumption) and exercised by the bounded scenarios metadata_merge /
# handle_responses; what is proved below is WHEN _handle_responses calls them.
_RESET_ASSUMED = ["KafkaClient.reset_topic_metadata / reset_consumer_group_metadata are represented by trusted contracts (their "
                  "effect on the caches is exercised by the bounded scenarios, not proved)",
                  "BrokerResponseError.raise_for_errno is modelled from the literal errnos table of afkak/common.py, "
                  "re-extracted on every run: code 0 returns, a listed code raises its class, any other a plain "
                  "BrokerResponseError"]
TOPIC_CACHES = ["KafkaClient.topic_partitions", "KafkaClient.topic_errors", "KafkaClient.partition_meta", "KafkaClient.topics_to_brokers"]
method("reset_topic_metadata", "(%s, topic: str) -> None" % SELF, props=["C08"], trusted=True, modifies=TOPIC_CACHES,
       ensures={"topic-forgotten": "topic not in self.topic_partitions and topic not in self.topic_errors"})
method("reset_consumer_group_metadata", "(%s, group: Optional[str]) -> None" % SELF, props=["C08"], trusted=True, modifies=[])

method("_handle_responses",
       "(%s, responses: List[ProduceResponse], fail_on_error: bool, callback: None = None, consumer_group: Optional[str] = None) -> List[ProduceResponse]" % SELF,
       props=["C08"], assumes=_RESET_ASSUMED, locals={"out": "List[ProduceResponse]"},
       loops={"for#1": dict(index="i", inv=["len(out) == i", "out == responses[:i]"])},
       checkpoints={
           # a not-leader / unknown-partition answer invalidates that topic's routing; a coordinator error the group's;
           # nothing else invalidates anything - whether or not the caller asked to fail on errors
           "iteration-end:for#1": {
               "stale-routing-invalidated[C08]":
                   "n_calls('reset_topic_metadata') == ite(resp.error == 3 or resp.error == 6, 1, 0) and "
                   "n_calls('reset_consumer_group_metadata') == ite(resp.error == 14 or resp.error == 15 or resp.error == 16, 1, 0)",
               "every-response-handed-on[C08]": "not fail_on_error or resp.error == 0"},
           "raise#1": {"invalidated-before-failing[C08]": "fail_on_error and (resp.error == 3 or resp.error == 6) and "
                                                          "n_calls('reset_topic_metadata') == 1"},
           "raise#2": {"invalidated-before-failing[C08]": "fail_on_error and (resp.error == 14 or resp.error == 15 or resp.error == 16) "
                                                          "and n_calls('reset_consumer_group_metadata') == 1"},
           "raise#3": {"other-errors-fail-only-on-request[C08,C09]": "fail_on_error and resp.error != 0"}},
       ensures={"all-responses-in-order[C08]": "result == responses"},
       raises={"BrokerResponseError": "fail_on_error"})


# ---- C20: no broker client (hence no connection) is handed out or created after close() ----------------------------
method("_get_brokerclient", "(%s, node_id: int) -> Ref_BrokerClientAPI" % SELF, props=["C20"],
       construct_as={"_KafkaBrokerClient": "BrokerClientAPI"},
       requires=["self._closing or self.clients is not None"],        # close() is what sets clients to None
       ensures={"only-while-open[C20]": "not self._closing",
                "the-client-of-that-node[C20]": "self.clients is not None and node_id in self.clients and result == self.clients[node_id]",
                "created-only-when-missing[C20]": "n_events('Construct:_KafkaBrokerClient') == ite(node_id in old(self.clients), 0, 1)"},
       raises={"ClientError[C20]": "iff:self._closing", "KeyError": "not self._closing and node_id not in self._brokers"})


# ---- C20: the aggregate close Deferred nests the earlier one and covers every broker client being closed ------------
CB_ENV = {"self": "Ref_KafkaClient"}
contract(K + "_close_brokerclients.<_log_close_failure>")(type('_', (), dict(
    sig="(failure: Ref_Failure, brokerclient: Ref_BrokerClientAPI) -> None", props=["C20"], entry_point=True, closure_env={},
    ensures={"swallows-the-failure[C20]": "result is None"},
    notes="returns None: a failed broker-client close still counts as 'gone' for the aggregate")))

contract(K + "_close_brokerclients.<_clean_close_dlist>")(type('_', (), dict(
    sig="(result: Any, close_dlist: Ref_Deferred) -> None", props=["C20"], entry_point=True, closure_env=dict(CB_ENV),
    # only the aggregate that is still the current one may clear the slot: a later (nesting) aggregate stays in place
    ensures={"resets-only-its-own-aggregate[C20]":
             "self.close_dlist == ite(old(self.close_dlist) == close_dlist, None, old(self.close_dlist))"})))

method("_close_brokerclients", "(%s, clients: List[Ref_BrokerClientAPI]) -> None" % SELF, props=["C20"],
       locals={"dList": "List[Ref_Deferred]"},
       loops={"for#1": dict(index="i", inv=[
           "len(dList) == i + ite(old(self.close_dlist) is None, 0, 1)",
           "implies(old(self.close_dlist) is not None, dList[0] == old(self.close_dlist))"])},
       checkpoints={"call:addBoth#1": {
           "aggregate-covers-the-earlier-one-and-every-client[C20]":
               "self.close_dlist is not None and len(dl_members(self.close_dlist)) == len(clients) + ite(old(self.close_dlist) is None, 0, 1) "
               "and implies(old(self.close_dlist) is not None, dl_members(self.close_dlist)[0] == old(self.close_dlist))"}},
       ensures={"every-client-closed[C20]": "True"})

method("reset_all_metadata", "(%s) -> None" % SELF, props=["C20"], trusted=True, modifies=[],
       assumes=["KafkaClient.reset_all_metadata is represented by a trusted contract (it clears four dict caches outside the "
                "symbolic subset; that close() leaves them empty is exercised by the exhaustive client_close scenario)"])

method("close", "(%s) -> Optional[Ref_Deferred]" % SELF, props=["C20"],
       requires=["self.clients is not None"],          # close() has not run before (it is what sets clients to None)
       checkpoints={"call:_close_brokerclients#1": {
           # closed for business before the first broker client is touched: whatever re-enters from here on is refused
           "poisoned-first[C20]": "self._closing and self.clients is None"}},
       ensures={"closed[C20]": "self._closing and self.clients is None",
                "metadata-dropped[C20]": "n_calls('reset_all_metadata') == 1",
                "waits-for-the-aggregate[C20]": "result is not None and ((self.close_dlist is not None and result == self.close_dlist) or "
                                                "(self.close_dlist is None and called(result)))"})


# ---- C20: the bootstrap loop neither dials nor writes once the client is closed -----------------------------------------
@klass("ext.BootstrapProto")
class _:
    external = True
    fields = {"transport": ("Ref_Transport", False)}
    methods = {"request": dict(ret="Deferred?", trace="BootstrapWrite")}


method("_send_bootstrap_request", "(%s, request: bytes) -> Ref_Deferred" % SELF, props=["C20", "C07"],
       locals={"hostports": "List[Tuple[str, int]]", "protocol": "Ref_BootstrapProto", "response": "bytes", "ep": "Ref_Endpoint"},
       raises={"CancelledError[C20]": "True", "KafkaUnavailableError[C07]": "True"},
       loops={"for#1": dict(index="hi", inv=["True"])},
       checkpoints={
           # every connection attempt and every write is preceded by a fresh look at the closed flag (the coroutine is
           # suspended, and close() may run, while a connection attempt is pending)
           "call:connect#1": {"no-dial-after-close[C20]": "not self._closing"},
           "call:request#1": {"no-write-after-close[C20]": "not self._closing"}})


# ---- C20 / C07: the broker-agnostic request path refuses a closed client and only ever talks through open-client calls --
contract(K + "_send_broker_unaware_request.<connected>")(type('_', (), dict(
    sig="(node_id: int) -> bool", props=["C07"], inline=True, closure_env={"self": "Ref_KafkaClient"})))

method("_send_broker_unaware_request", "(%s, requestId: int, request: bytes) -> Ref_Deferred" % SELF, props=["C20", "C07"],
       locals={"node_ids": "List[int]", "resp": "bytes", "broker": "Ref_BrokerClientAPI"},
       raises={"ClientError[C20]": "True", "KeyError": "True", "Exception": "True"},
       loops={"for#1": dict(index="bi", inv=["not old(self._closing)"])},
       checkpoints={"call:_make_request_to_broker#1": {"never-on-a-closed-client[C20]": "not self._closing"},
                    "call:_send_bootstrap_request#1": {"only-after-the-known-brokers[C07]": "not old(self._closing)"}},
       ensures={"refused-when-closed[C20]": "not old(self._closing)"})


# ---- C04: version discovery - every ApiVersions request goes out under the correlation id its header carries -----------
method("_handle_api_version_update", "(%s, resp: ApiVersionResponse) -> None" % SELF, props=["C04"], trusted=True,
       modifies=["KafkaClient._api_versions", "KafkaClient._api_versions_zero"],
       assumes=["KafkaClient._handle_api_version_update is represented by a trusted contract inside fetch_api_versions (it stores the "
                "int 0 or a list in one attribute; the version choice that follows is exercised exhaustively by the api_discovery scenario)"])

method("fetch_api_versions", "(%s) -> Ref_Deferred" % SELF, props=["C04"],
       locals={"resp": "Optional[bytes]", "req": "bytes"},
       requires=["0 <= self.correlation_id and self.correlation_id < 2147483648", "len(self._clientIdBytes) <= 32767"],
       raises={"Exception": "True"},
       loops={"while#1": dict(inv=["req == req_header(18, 0, requestId, self._clientIdBytes)", "0 <= api_version_failures"],
                              decreases="3 - api_version_failures")},
       checkpoints={"call:_send_broker_unaware_request#1": {
           # the broker connection matches the reply by the id handed over separately: it must be the one in the header,
           # on the first attempt and on every retry
           "issued-under-the-id-in-its-header[C04]": "req == req_header(18, 0, requestId, self._clientIdBytes)"}})


# ---- C18 / C08: the partition list handed to the partitioners is ascending ----------------------------------------------
# ("over any window ... with an unchanged ASCENDING list of n partitions": Producer._next_partition passes
# client.topic_partitions[topic] as it is; the hashed partitioner agrees with the Java client only on the ascending list)
method("_update_brokers", "(%s, brokers: Any, remove: Any = False) -> None" % SELF, props=["C08"], trusted=True,
       modifies=["KafkaClient.clients", "KafkaClient._brokers", "KafkaClient.close_dlist"],
       assumes=["KafkaClient._update_brokers is represented by a trusted contract inside _merge_topic_metadata (exercised by the "
                "metadata_merge scenario)"])

method("_merge_topic_metadata",
       "(%s, brokers: Dict[int, BrokerMetadata], topics: Dict[str, TopicMetadata], fetched_all_topics: bool) -> None" % SELF,
       props=["C18", "C08"], raises={"KeyError": "True"},
       loops={"for#1": dict(index="ti", inv=["True"]),
              "for#1/for#1": dict(index="pi", inv=["topic in self.topic_partitions"],
                                  heap_modifies=["KafkaClient.topic_partitions", "KafkaClient.partition_meta",
                                                 "KafkaClient.topics_to_brokers"])},
       checkpoints={
           # C07/C08: the routing cache says, for every partition of the answer, the broker the answer names as its leader
           # (None for a partition without a leader) and keeps the partition's metadata
           "iteration-end:for#1/for#1": {
               "leader-recorded[C07, C08]":
                   "TopicAndPartition(topic, partition) in self.topics_to_brokers and "
                   "implies(meta.leader == -1, self.topics_to_brokers[TopicAndPartition(topic, partition)] is None) and "
                   "implies(meta.leader != -1, self.topics_to_brokers[TopicAndPartition(topic, partition)] == brokers[meta.leader])",
               "partition-metadata-recorded[C08]": "TopicAndPartition(topic, partition) in self.partition_meta and "
                                                   "self.partition_meta[TopicAndPartition(topic, partition)] == meta"},
           "iteration-end:for#1": {
           "partition-list-ascending[C18]": "implies(topic in self.topic_partitions, is_asc(self.topic_partitions[topic]))",
           "topic-error-recorded[C08]": "topic in self.topic_errors and self.topic_errors[topic] == topics[topic].topic_error_code"}})
