#!/bin/sh
# usage: ./seedpar.sh [jobs]   development helper: every seeded change against the check of its own property, several properties
# at a time (seeds of one property serially), each on a scratch copy of /repo/afkak under /tmp/sd (AFKAK_REPO points the checker
# at it; /repo itself is not touched).  Evidence and replay files are overwritten by these runs: regenerate with ./sweep.sh.
cd /verif
jobs=${1:-5}
rm -rf /tmp/sd; mkdir -p /tmp/sd
for i in 01 02 03 04 05 06 07 08 09 10 11 12 13 14 15 16 17 18 19 20; do echo C$i; done | xargs -P $jobs -I{} ./seedpar_one.sh {}
rm -rf /tmp/sd/C*
