"""Contract registry.  Sidecar files under /verif/contracts declare contracts with

    @contract("afkak._util.read_short_bytes")
    class _:
        sig = "(data: bytes, cur: int) -> Tuple[Optional[bytes], int]"
        requires = ["0 <= cur"]
        ensures = {"func[C05]": "result == parse_bytes16(data, cur)"}
        raises = {"BufferUnderflowError": "underflows_bytes16(data, cur)"}     # value "iff:<expr>" = exactly when
        loops = {"for#1": dict(index="i", inv=[...], decreases="...")}
"""
import ast
import re

from . import ty as T

CONTRACTS = {}
ORDER = []


class LoopSpec:
    def __init__(self, index=None, inv=(), decreases=None, modifies=None, elem=None, **extra):
        self.extra = extra
        self.index = index
        self.inv = list(inv)
        self.decreases = decreases
        self.modifies = modifies
        self.elem = elem


class Contract:
    def __init__(self, qualname, d):
        self.qualname = qualname
        self.sig = d.get('sig')
        self.params, self.ret_ty = parse_sig(self.sig) if self.sig else ([], T.ANY)
        self.requires = list(d.get('requires', []))
        self.ensures = dict(d.get('ensures', {}))
        self.raises = dict(d.get('raises', {}))
        self.loops = {k: (v if isinstance(v, LoopSpec) else LoopSpec(**v)) for k, v in d.get('loops', {}).items()}
        self.props = list(d.get('props', []))
        self.inline = d.get('inline', False)
        self.trusted = d.get('trusted', False)
        self.kind = d.get('kind', 'function')       # function | generator | method
        self.item_ty = T.parse_ty(d['item']) if 'item' in d else None
        self.cls = d.get('cls')                      # for methods: class contract name
        self.modifies = d.get('modifies')            # fields of self that may change (None = any)
        self.reads_time = d.get('reads_time', False)
        self.lemmas = list(d.get('lemmas', []))      # extra facts (spec-only, each proved separately)
        self.must_fail = d.get('must_fail')          # name of an ensures clause used for the must-fail twin
        self.covers = dict(d.get('covers', {}))
        self.closure_env = dict(d.get('closure_env', {}))   # free variables of a closure: name -> type str
        self.notes = d.get('notes', '')
        self.bv = d.get('bv')
        self.extra = d

    def all_props(self):
        """every property named by the contract or by one of its clauses (ensures, raises, checkpoints)"""
        props = set(self.props)
        names = list(self.ensures) + list(self.raises)
        for cp in (self.extra.get('checkpoints') or {}).values():
            names.extend(cp)
        names.extend(l.get('name', '') for l in (self.extra.get('lemmas') or []))
        for n in names:
            props.update(self.clause_props(n))
        return props

    def clause_props(self, name):
        m = re.search(r'\[([A-Z0-9, ]+)\]', name)
        if m:
            return [p.strip() for p in m.group(1).split(',')]
        return self.props


def parse_sig(sig):
    """'(a: int, b: Optional[bytes] = None) -> int'  ->  ([(name, ty, default_ast)], ret_ty)"""
    src = 'def f%s: pass' % sig
    fn = ast.parse(src).body[0]
    params = []
    args = fn.args.args
    defaults = [None] * (len(args) - len(fn.args.defaults)) + list(fn.args.defaults)
    for a, d in zip(args, defaults):
        params.append((a.arg, T.parse_ty(a.annotation) if a.annotation is not None else T.ANY, d))
    ret = T.parse_ty(fn.returns) if fn.returns is not None else T.NONE
    return params, ret


def contract(qualname):
    def deco(cls):
        d = {k: v for k, v in vars(cls).items() if not k.startswith('__')}
        c = Contract(qualname, d)
        CONTRACTS[qualname] = c
        ORDER.append(qualname)
        return cls
    return deco
