"""Kafka wire grammar (transcribed from the Apache Kafka protocol guide, NOT from afkak) and a generator that
specialises each response schema into plain-Python spec functions (written to specs/gen_parse.py on every run):

  <M>_ok(data)                      the whole response is well-formed
  <S>_ok(data, p) / <S>_end(data,p) a struct S starting at p is well-formed / where it ends
  <S>_<field>(data, p)              value of a leaf field of the struct starting at p
  <A>_pos(data, a, k)   (@rec)      start of element k of the array whose count field is at a  (k = count: end)
  <A>_okn(data, a, k)   (@rec)      count readable and the first k elements well-formed
  <M>_items... (@rec)               the flattened item list a decoder is specified to produce

Field kinds: i8 i16 i32 i64 u32 (big-endian two's complement), str (int16 length, -1 = null), bytes (int32 length,
-1 = null), array (int32 count, then elements).
"""

SIZES = {'i8': 1, 'i16': 2, 'i32': 4, 'i64': 8, 'u32': 4}


class Arr:
    def __init__(self, name, elem):
        self.name = name        # python identifier fragment
        self.elem = elem        # list of (fname, kind)  kind in SIZES | 'str_ascii' | 'str_utf8' | 'bytes' | Arr


def gen_struct(out, sname, fields):
    """fields: [(name, kind)] -> functions <sname>_ok/_end/_pos_<f>/_<f>"""
    pos = 'p'
    oks = ['p >= 0']
    for fname, kind in fields:
        out.append('def %s_pos_%s(data: bytes, p: int) -> int:\n    return %s\n' % (sname, fname, pos))
        here = '%s_pos_%s(data, p)' % (sname, fname)
        if isinstance(kind, Arr):
            gen_array(out, kind)
            oks.append('%s_ok(data, %s)' % (kind.name, here))
            pos = '%s_end(data, %s)' % (kind.name, here)
        elif kind in SIZES:
            out.append('def %s_%s(data: bytes, p: int) -> int:\n    return u_%s(data, %s)\n' % (sname, fname, kind, here))
            oks.append('%s + %d <= len(data)' % (here, SIZES[kind]))
            pos = '%s + %d' % (here, SIZES[kind])
        elif kind in ('str_ascii', 'str_utf8'):
            enc = kind[4:]
            out.append('def %s_%s(data: bytes, p: int) -> str:\n    return dec_%s(bytes16_val(data, %s))\n'
                       % (sname, fname, enc, here))
            oks.append('str16_nonnull_ok(data, %s) and is_%s_b(bytes16_val(data, %s))' % (here, enc, here))
            pos = 'bytes16_end(data, %s)' % here
        elif kind == 'bytes16':
            out.append('def %s_%s(data: bytes, p: int) -> Optional[bytes]:\n    return bytes16_val(data, %s)\n'
                       % (sname, fname, here))
            oks.append('bytes16_ok(data, %s)' % here)
            pos = 'bytes16_end(data, %s)' % here
        elif kind == 'bytes':
            out.append('def %s_%s(data: bytes, p: int) -> Optional[bytes]:\n    return bytes32_val(data, %s)\n'
                       % (sname, fname, here))
            oks.append('bytes32_ok(data, %s)' % here)
            pos = 'bytes32_end(data, %s)' % here
        else:
            raise ValueError(kind)
    out.append('def %s_end(data: bytes, p: int) -> int:\n    return %s\n' % (sname, pos))
    out.append('def %s_ok(data: bytes, p: int) -> bool:\n    return %s\n' % (sname, ' and '.join(oks)))


def gen_array(out, arr):
    en = arr.name + '_e'
    if isinstance(arr.elem, str):
        # array of a primitive
        gen_struct(out, en, [('v', arr.elem)])
    else:
        gen_struct(out, en, arr.elem)
    out.append('''@rec
def {a}_pos(data: bytes, a: int, k: int) -> int:
    if k <= 0:
        return a + 4
    return {e}_end(data, {a}_pos(data, a, k - 1))
'''.format(a=arr.name, e=en))
    out.append('''@rec
def {a}_okn(data: bytes, a: int, k: int) -> bool:
    if k <= 0:
        return a >= 0 and a + 4 <= len(data)
    return {a}_okn(data, a, k - 1) and {e}_ok(data, {a}_pos(data, a, k - 1))
'''.format(a=arr.name, e=en))
    out.append('''def {a}_cnt(data: bytes, a: int) -> int:
    return u_i32(data, a)
'''.format(a=arr.name))
    out.append('''def {a}_ok(data: bytes, a: int) -> bool:
    return {a}_cnt(data, a) >= 0 and {a}_okn(data, a, {a}_cnt(data, a))
'''.format(a=arr.name))
    out.append('''def {a}_end(data: bytes, a: int) -> int:
    return {a}_pos(data, a, {a}_cnt(data, a))
'''.format(a=arr.name))


def gen_flatten2(out, name, item, outer, inner, inner_field, ctor_args):
    """items of a two-level [outer [inner]] response flattened in wire order.
    ctor_args: list of ('o', field) | ('i', field) naming leaf fields of the outer / inner element struct."""
    args = []
    for lvl, f in ctor_args:
        if lvl == 'o':
            args.append('%s_e_%s(data, e)' % (outer.name, f))
        elif lvl == 'x':
            args.append(f.format(p='%s_pos(data, a2, j - 1)' % inner.name, inner=inner.name))
        else:
            args.append('%s_e_%s(data, %s_pos(data, a2, j - 1))' % (inner.name, f, inner.name))
    out.append('''@rec
def {n}_inner(data: bytes, e: int, a2: int, j: int) -> List[{item}]:
    if j <= 0:
        return []
    return {n}_inner(data, e, a2, j - 1) + [{item}({args})]
'''.format(n=name, item=item, args=', '.join(args)))
    out.append('''@rec
def {n}_outer(data: bytes, a: int, i: int) -> List[{item}]:
    if i <= 0:
        return []
    return {n}_outer(data, a, i - 1) + {n}_inner(data, {o}_pos(data, a, i - 1), {o}_e_pos_{f}(data, {o}_pos(data, a, i - 1)), {inn}_cnt(data, {o}_e_pos_{f}(data, {o}_pos(data, a, i - 1))))
'''.format(n=name, item=item, o=outer.name, f=inner_field, inn=inner.name))


def gen_flatten1(out, name, item, arr, ctor_args):
    """items of a one-level array: [Ctor(fields of element k) for k < n]; a bare field name means a primitive array"""
    if ctor_args is None:
        expr = '%s_e_v(data, %s_pos(data, a, k - 1))' % (arr.name, arr.name)
    else:
        expr = '%s(%s)' % (item, ', '.join('%s_e_%s(data, %s_pos(data, a, k - 1))' % (arr.name, f, arr.name) for f in ctor_args))
    out.append('''@rec
def {n}(data: bytes, a: int, k: int) -> List[{item}]:
    if k <= 0:
        return []
    return {n}(data, a, k - 1) + [{expr}]
'''.format(n=name, item=item, expr=expr))


HEADER = '''"""GENERATED by specs/grammar.py on every run -- do not edit.  Parser-side specification of Kafka responses."""
from typing import Dict, List, Optional, Tuple

from .prims import *  # noqa
from .wire import *  # noqa
from .structs import *  # noqa


def rec(f=None, **kw):
    if f is None:
        return lambda g: g
    return f

'''


RESP_SCHEMAS = {}     # name -> list of top-level fields (after nothing: includes correlation id)


def generate():
    out = [HEADER]

    # ---- two-level [topic [partition ...]] responses -------------------------------------------------
    def two_level(prefix, item, part_fields, ctor_args, header_size):
        parts = Arr(prefix + '_parts', part_fields)
        topics = Arr(prefix + '_topics', [('topic', 'str_ascii'), ('partitions', parts)])
        RESP_SCHEMAS[prefix] = [('correlation_id', 'i32')] * (header_size // 4) + [('topics', topics)]
        gen_array(out, topics)
        gen_flatten2(out, prefix + '_items', item, topics, parts, 'partitions', ctor_args)
        out.append('''def {p}_ok(data: bytes) -> bool:
    return {hs} <= len(data) and {p}_topics_ok(data, {hs})
'''.format(p=prefix, hs=header_size))
        out.append('''def {p}_items(data: bytes) -> List[{item}]:
    return {p}_items_outer(data, {hs}, {p}_topics_cnt(data, {hs}))
'''.format(p=prefix, item=item, hs=header_size))

    # ProduceResponse v0: correlation_id:i32 [topic:str [partition:i32 error:i16 base_offset:i64]]
    two_level('prv0', 'ProduceResponse', [('partition', 'i32'), ('error', 'i16'), ('offset', 'i64')],
              [('o', 'topic'), ('i', 'partition'), ('i', 'error'), ('i', 'offset')], 4)
    # ProduceResponse v1/v2: ... [partition:i32 error:i16 base_offset:i64 log_append_time:i64] then throttle_ms:i32
    two_level('prv2', 'ProduceResponse', [('partition', 'i32'), ('error', 'i16'), ('offset', 'i64'), ('log_append_time', 'i64')],
              [('o', 'topic'), ('i', 'partition'), ('i', 'error'), ('i', 'offset')], 4)
    # OffsetCommitResponse v1: correlation_id:i32 [topic:str [partition:i32 error:i16]]
    two_level('ocr', 'OffsetCommitResponse', [('partition', 'i32'), ('error', 'i16')],
              [('o', 'topic'), ('i', 'partition'), ('i', 'error')], 4)
    # OffsetFetchResponse v1: correlation_id:i32 [topic:str [partition:i32 offset:i64 metadata:str error:i16]]
    two_level('ofr', 'OffsetFetchResponse', [('partition', 'i32'), ('offset', 'i64'), ('metadata', 'bytes16'), ('error', 'i16')],
              [('o', 'topic'), ('i', 'partition'), ('i', 'offset'), ('i', 'metadata'), ('i', 'error')], 4)
    # FetchResponse v0: correlation_id:i32 [topic:str [partition:i32 error:i16 high_watermark:i64 record_set:bytes]]
    # FetchResponse v1+: correlation_id:i32 throttle_ms:i32 then as v0          (array at 4 resp. 8)
    two_level('fr', 'FetchResponse', [('partition', 'i32'), ('error', 'i16'), ('highwaterMark', 'i64'), ('record_set', 'bytes')],
              [('o', 'topic'), ('i', 'partition'), ('i', 'error'), ('i', 'highwaterMark'),
               ('x', "mkgen('afkak.kafkacodec.KafkaCodec._decode_message_set_iter', {inner}_e_record_set(data, {p}))")], 4)
    # OffsetResponse (ListOffsets) v0: correlation_id:i32 [topic:str [partition:i32 error:i16 [offset:i64]]]
    or_offs = Arr('or_offs', 'i64')
    two_level('orr', 'OffsetResponse', [('partition', 'i32'), ('error', 'i16'), ('offsets', or_offs)],
              [('o', 'topic'), ('i', 'partition'), ('i', 'error'),
               ('x', "tuple(or_off_items(data, {inner}_e_pos_offsets(data, {p}), or_offs_cnt(data, {inner}_e_pos_offsets(data, {p}))))")], 4)
    gen_flatten1(out, 'or_off_items', 'int', or_offs, None)
    RESP_SCHEMAS['fr2'] = [('correlation_id', 'i32'), ('throttle', 'i32')] + RESP_SCHEMAS['fr'][1:]
    # ---- flat and one-level responses ---------------------------------------------------------------
    # FindCoordinator v0 response: correlation_id:i32 error:i16 node_id:i32 host:str port:i32
    fc = [('correlation_id', 'i32'), ('error', 'i16'), ('node_id', 'i32'), ('host', 'str_ascii'), ('port', 'i32')]
    gen_struct(out, 'fcr', fc)
    RESP_SCHEMAS['fcr'] = fc
    # Heartbeat / LeaveGroup v0 response: correlation_id:i32 error:i16
    gen_struct(out, 'errr', [('correlation_id', 'i32'), ('error', 'i16')])
    RESP_SCHEMAS['errr'] = [('correlation_id', 'i32'), ('error', 'i16')]
    # SyncGroup v0 response: correlation_id:i32 error:i16 assignment:bytes
    sg = [('correlation_id', 'i32'), ('error', 'i16'), ('assignment', 'bytes')]
    gen_struct(out, 'sgr', sg)
    RESP_SCHEMAS['sgr'] = sg
    # JoinGroup v0 response: correlation_id:i32 error:i16 generation:i32 protocol:str leader:str member:str
    #                        [member_id:str metadata:bytes]
    jm = Arr('jgr_members', [('member_id', 'str_utf8'), ('metadata', 'bytes')])
    jg = [('correlation_id', 'i32'), ('error', 'i16'), ('generation_id', 'i32'), ('group_protocol', 'str_utf8'),
          ('leader_id', 'str_utf8'), ('member_id', 'str_utf8'), ('members', jm)]
    gen_struct(out, 'jgr', jg)
    gen_flatten1(out, 'jgr_member_items', '_JoinGroupResponseMember', jm, ['member_id', 'metadata'])
    RESP_SCHEMAS['jgr'] = jg
    # ConsumerProtocol subscription v0: version:i16 [topic:str] user_data:bytes
    subs = Arr('cps_topics', 'str_utf8')
    cps = [('version', 'i16'), ('subscriptions', subs), ('user_data', 'bytes')]
    gen_struct(out, 'cps', cps)
    gen_flatten1(out, 'cps_topic_items', 'str', subs, None)
    RESP_SCHEMAS['cps'] = cps
    # ApiVersions v0 response: correlation_id:i32 error:i16 [api_key:i16 min:i16 max:i16]
    av = Arr('avr_apis', [('api_key', 'i16'), ('min_version', 'i16'), ('max_version', 'i16')])
    avr = [('correlation_id', 'i32'), ('error_code', 'i16'), ('api_versions', av)]
    gen_struct(out, 'avr', avr)
    gen_flatten1(out, 'avr_api_items', 'ApiVersion', av, ['api_key', 'min_version', 'max_version'])
    RESP_SCHEMAS['avr'] = avr
    # ---- schemas used by native-only reference parsing (bounded stand-ins; no symbolic spec functions generated) ----
    # Metadata v0 response: correlation_id:i32 [node_id:i32 host:str port:i32]
    #                       [error:i16 name:str [error:i16 partition:i32 leader:i32 [replica:i32] [isr:i32]]]
    RESP_SCHEMAS['mdr'] = [('correlation_id', 'i32'),
                           ('brokers', Arr('mdr_brokers', [('node_id', 'i32'), ('host', 'str_ascii'), ('port', 'i32')])),
                           ('topics', Arr('mdr_topics', [
                               ('error', 'i16'), ('name', 'str_ascii'),
                               ('partitions', Arr('mdr_parts', [('error', 'i16'), ('partition', 'i32'), ('leader', 'i32'),
                                                                ('replicas', Arr('mdr_replicas', 'i32')),
                                                                ('isr', Arr('mdr_isr', 'i32'))]))]))]
    # ConsumerProtocol member assignment v0: version:i16 [topic:str [partition:i32]] user_data:bytes
    RESP_SCHEMAS['sgma'] = [('version', 'i16'),
                            ('assignments', Arr('sgma_topics', [('topic', 'str_ascii'), ('partitions', Arr('sgma_parts', 'i32'))])),
                            ('user_data', 'bytes')]
    return '\n'.join(out)


def write(path):
    """(re)generate the parser-side spec module.  Every worker process of a check calls this while others may be reading the
    file: it is rewritten only when its content would change, and then atomically (temp file + rename), never in place"""
    import os
    import tempfile
    txt = generate()
    try:
        with open(path) as f:
            if f.read() == txt:
                return txt
    except OSError:
        pass
    fd, tmp = tempfile.mkstemp(prefix='.gen_parse.', suffix='.tmp', dir=os.path.dirname(path) or '.')
    with os.fdopen(fd, 'w') as f:
        f.write(txt)
    os.replace(tmp, path)
    return txt
