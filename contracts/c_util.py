"""Contracts for afkak/_util.py (wire primitives).  Properties: C05 (decode == spec), C12 (progress, no backwards
cursor, bounded work), C04 (encoders == spec)."""
from pyvc.contracts import contract


@contract("afkak._util._buffer_underflow")
class _:
    sig = "(what: str, buf: bytes, offset: int, size: int) -> Exc"
    inline = True


@contract("afkak._util.read_short_bytes")
class _:
    sig = "(data: bytes, cur: int) -> Tuple[Optional[bytes], int]"
    props = ["C05", "C12"]
    requires = ["0 <= cur"]
    ensures = {
        "func[C05]": "implies(bytes16_ok(data, cur), result[0] == bytes16_val(data, cur) and result[1] == bytes16_end(data, cur))",
        "progress[C12]": "cur + 2 <= result[1] and result[1] <= len(data)",
        "wellformed[C12]": "bytes16_ok(data, cur)",
    }
    raises = {"BufferUnderflowError": "not bytes16_ok(data, cur)",
              "ProtocolError": "not bytes16_ok(data, cur)"}


@contract("afkak._util.read_int_string")
class _:
    sig = "(data: bytes, cur: int) -> Tuple[Optional[bytes], int]"
    props = ["C05", "C12"]
    requires = ["0 <= cur"]
    ensures = {
        "func[C05]": "implies(bytes32_ok(data, cur), result[0] == bytes32_val(data, cur) and result[1] == bytes32_end(data, cur))",
        "progress[C12]": "cur + 4 <= result[1] and result[1] <= len(data)",
        "wellformed[C12]": "bytes32_ok(data, cur)",
    }
    raises = {"BufferUnderflowError": "not bytes32_ok(data, cur)",
              "ProtocolError": "not bytes32_ok(data, cur)"}


def _relunpack_ret(eng, bound):
    from pyvc.builtins import fmt_of, fmt_tuple_ty
    fmt = fmt_of(eng, bound['fmt'], None, None)
    return ('tuple', (fmt_tuple_ty(fmt), ('int',)))


@contract("afkak._util.relative_unpack")
class _:
    sig = "(fmt: str, data: bytes, cur: int) -> Any"
    props = ["C05", "C12"]
    dep_ret = staticmethod(_relunpack_ret)
    instances = "relative_unpack-formats"      # one verification instance per constant format used in /repo
    requires = ["0 <= cur"]
    ensures = {
        "func[C05]": "result[0] == unpack_tuple(fmt, data, cur) and result[1] == cur + calcsize(fmt)",
        "progress[C12]": "result[1] <= len(data)",
    }
    raises = {"BufferUnderflowError": "iff:len(data) < cur + calcsize(fmt)"}


@contract("afkak._util.read_short_ascii")
class _:
    sig = "(data: bytes, cur: int) -> Tuple[str, int]"
    props = ["C05", "C12"]
    requires = ["0 <= cur"]
    ensures = {
        "func[C05]": "str16_nonnull_ok(data, cur) and is_ascii_b(bytes16_val(data, cur)) and "
                     "result[0] == dec_ascii(bytes16_val(data, cur)) and result[1] == bytes16_end(data, cur)",
        "progress[C12]": "cur + 2 <= result[1] and result[1] <= len(data)",
    }
    raises = {"BufferUnderflowError": "not bytes16_ok(data, cur)",
              "ProtocolError": "not bytes16_ok(data, cur)",
              "AttributeError": "bytes16_ok(data, cur) and u_i16(data, cur) == -1",
              "UnicodeDecodeError": "str16_nonnull_ok(data, cur) and not is_ascii_b(bytes16_val(data, cur))"}


@contract("afkak._util.read_short_text")
class _:
    sig = "(data: bytes, cur: int) -> Tuple[str, int]"
    props = ["C05", "C12"]
    requires = ["0 <= cur"]
    ensures = {
        "func[C05]": "str16_nonnull_ok(data, cur) and is_utf8_b(bytes16_val(data, cur)) and "
                     "result[0] == dec_utf8(bytes16_val(data, cur)) and result[1] == bytes16_end(data, cur)",
        "progress[C12]": "cur + 2 <= result[1] and result[1] <= len(data)",
    }
    raises = {"BufferUnderflowError": "not bytes16_ok(data, cur)",
              "ProtocolError": "not bytes16_ok(data, cur)",
              "AttributeError": "bytes16_ok(data, cur) and u_i16(data, cur) == -1",
              "UnicodeDecodeError": "str16_nonnull_ok(data, cur) and not is_utf8_b(bytes16_val(data, cur))"}


@contract("afkak._util.write_int_string")
class _:
    sig = "(s: Optional[bytes]) -> bytes"
    props = ["C04"]
    ensures = {"func[C04]": "result == enc_bytes32(s)"}
    raises = {"struct.error": "iff:s is not None and len(s) > 2147483647"}


@contract("afkak._util.write_short_bytes")
class _:
    sig = "(b: Optional[bytes]) -> bytes"
    props = ["C04"]
    ensures = {"func[C04]": "result == enc_bytes16(b)"}
    raises = {"struct.error": "iff:b is not None and len(b) > 32767"}


@contract("afkak._util.write_short_ascii")
class _:
    sig = "(s: Optional[str]) -> bytes"
    props = ["C04"]
    ensures = {"func[C04]": "result == enc_str16_ascii(s)"}
    raises = {"struct.error": "iff:s is not None and is_ascii_s(s) and len(enc_ascii(s)) > 32767",
              "UnicodeEncodeError": "iff:s is not None and not is_ascii_s(s)"}


@contract("afkak._util.write_short_text")
class _:
    sig = "(s: Optional[str]) -> bytes"
    props = ["C04"]
    ensures = {"func[C04]": "result == enc_str16_utf8(s)"}
    raises = {"struct.error": "iff:s is not None and len(enc_utf8(s)) > 32767"}
