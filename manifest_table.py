CLAIMED = {
 'C05': dict(
   text="Proof level for the functions listed in evidence (functions_under_contract): every response decoder / wire reader under contract is proved, for all byte strings, to return exactly what an independent grammar-derived parser specification returns (loop invariants: cursor == spec position, yielded == spec item prefix). Decoders not yet under contract are named in the evidence 'explanation' and are not claimed.",
   note="Trusted: pyvc's encoding of the Python subset; struct/str codecs as uninterpreted bijections; z3/cvc5. The spec-level statement parse(encode(v)) == v of the grammar oracle itself is not proved here.",
   ref='DESIGN.md section 8 C05, section 12'),
 'C12': dict(
   text="Proof level for progress and bounded work: every wire reader under contract returns a cursor strictly beyond the one it was given and inside the buffer (or raises), and every decoder loop under contract carries a decreases clause len(data)-cur proved to drop on each completed iteration, so iterations are bounded by the input length whatever count fields claim.",
   note="CRC-32 burst-detection is a mathematical fact about CRC-32 that is assumed, not proved; gzip/snappy internals are external. Trusted: pyvc encoding, struct as uninterpreted bijection.",
   ref='DESIGN.md section 8 C12, section 12'),
}
NOT_APPLICABLE = {}
