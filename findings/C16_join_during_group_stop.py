import sys
from unittest.mock import Mock, patch
from twisted.internet import defer, task
from twisted.python.failure import Failure
import afkak._group as G
from afkak.common import (BrokerMetadata, _JoinGroupResponse, _JoinGroupResponseMember, _SyncGroupResponse, RebalanceInProgress)
from afkak.kafkacodec import KafkaCodec

live, shutting = [], []
class SlowConsumer:
    def __init__(self, client, topic, partition, processor, consumer_group, commit_consumer_id, commit_generation_id, **kw):
        self.key = (topic, partition, commit_generation_id); self._start_d = None
    def start(self, offset):
        self._start_d = defer.Deferred(); live.append(self); return self._start_d
    def stop(self):
        self._start_d, d = None, self._start_d
        if self in live: live.remove(self)
        if d and not d.called: d.callback(None)
    def shutdown(self):
        d = defer.Deferred(); shutting.append((self, d)); return d     # still processing: finishes later

clock = task.Clock(); client = Mock(reactor=clock); pending = []; sent_after_stop = []
stop_called = [False]
client._get_coordinator_for_group.side_effect = lambda g: defer.succeed(BrokerMetadata(1, 'h', 1))
client.load_metadata_for_topics.side_effect = lambda *t: defer.succeed(True)
client._load_topic_partitions.side_effect = lambda *t: defer.succeed({'t': [0, 1]})
client.topic_partitions = {'t': [0, 1]}
def srtc(group, payload, encoder_fn, decode_fn, **kw):
    kind = type(payload).__name__
    if stop_called[0]:
        sent_after_stop.append(kind); print('  request after stop():', kind, '| consumers of generation 1 still running:', [c.key for c in live])
    d = defer.Deferred(); pending.append((kind, d)); return d
client._send_request_to_coordinator.side_effect = srtc
with patch.object(G, 'Consumer', SlowConsumer):
    g = G.ConsumerGroup(client, 'g', ['t'], lambda *a: None)
    g.start()
    meta = KafkaCodec.encode_join_group_protocol_metadata(0, ['t'], b'')
    pending.pop(0)[1].callback(_JoinGroupResponse(0, 1, 'consumer', 'me', 'me', [_JoinGroupResponseMember('me', meta)]))
    pending.pop(0)[1].callback(_SyncGroupResponse(0, KafkaCodec.encode_sync_group_member_assignment(0, {'t': [0, 1]}, b'')))
    print('joined generation', g.generation_id, 'consumers', [c.key for c in live])
    print('a partition consumer reports RebalanceInProgress (a rejoin is scheduled)')
    live[0]._start_d.errback(Failure(RebalanceInProgress()))
    print('stop() called; the consumers are still finishing their work')
    stop_called[0] = True
    g.stop().addErrback(lambda f: None)
    clock.advance(5.0)
    bad = [k for k in sent_after_stop if k != '_LeaveGroupRequest']
    print('group requests other than LeaveGroup issued after stop():', bad)
    sys.exit(1 if bad else 0)
