#!/bin/sh
# usage: ./sweep.sh [--thorough]   runs every registered check on /repo as it stands; prints one line per property
cd /verif
tier=${1:---quick}
mkdir -p /tmp/sweep
for i in 01 02 03 04 05 06 07 08 09 10 11 12 13 14 15 16 17 18 19 20; do
  s=$(date +%s)
  ./check C$i $tier > /tmp/sweep/C$i.out 2>&1; rc=$?
  e=$(date +%s)
  echo "C$i exit=$rc $((e-s))s $(grep -c '^VIOLATION' /tmp/sweep/C$i.out) violation(s) $(grep -c '^KNOWN-FINDING' /tmp/sweep/C$i.out) known"
done
