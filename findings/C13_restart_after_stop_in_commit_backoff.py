"""C13 'A stopped consumer can be started again': stop() during a commit back-off leaves the cancelled retry timer in
_commit_call; after a restart the next stop() cancels it a second time."""
import sys
from unittest.mock import Mock
from twisted.internet import task, defer
from twisted.python.failure import Failure
from afkak import Consumer
from afkak.common import (FetchResponse, OffsetAndMessage, Message, RequestTimedOutError)

clock = task.Clock()
client = Mock(reactor=clock)
fetches, commits = [], []
client.send_fetch_request.side_effect = lambda *a, **k: fetches.append(defer.Deferred()) or fetches[-1]
client.send_offset_commit_request.side_effect = lambda *a, **k: commits.append(defer.Deferred()) or commits[-1]
c = Consumer(client, 't', 0, lambda cons, msgs: None, consumer_group='g', auto_commit_every_n=0, auto_commit_every_ms=0)
sd = c.start(0)
fetches[0].callback([FetchResponse('t', 0, 0, 5, iter([OffsetAndMessage(0, Message(0, 0, None, b'x'))]))])
c.commit().addErrback(lambda f: None)
commits[0].errback(Failure(RequestTimedOutError('slow')))        # retriable: the retry timer is armed
print('commit retry pending:', c._commit_call is not None and c._commit_call.active())
c.stop()
print('after stop: _commit_call', c._commit_call, 'timers', clock.getDelayedCalls())
sd2 = c.start(1)
try:
    c.stop()
except Exception as e:
    print('FAIL: second stop() raised %s: %r; _stopping=%s _start_d=%r' % (type(e).__name__, e, c._stopping, c._start_d))
    sys.exit(1)
print('PASS')
