"""SMT side of the primitive spec functions (native side: specs/prims.py): uninterpreted + instantiated axioms."""
import z3

from . import ty as T
from .ty import V, INT, BOOL, BYTES, STR, ANY
from .engine import UF, u_fn, p_fn, CODE_BY_NAME, PyObj

I = z3.IntSort()


def _unpack_of_pack(eng):
    c = getattr(eng, 'contract', None)
    return c is not None and c.extra.get('unpack_of_pack')


def _mk_u(nm):
    ch, size, lo, hi = CODE_BY_NAME[nm]

    def f(eng, args, kwargs, fr, node):
        data, pos = args
        if data.ty[0] == 'opt':
            data = T.opt_val(data)
        pt = z3.simplify(eng.num(pos).t)
        t = u_fn(nm)(data.t, pt)
        eng.axiom(z3.And(t >= lo, t <= hi))
        if _unpack_of_pack(eng):
            # unpack reads exactly the `size` octets at pos: u_x(data, pos) == up_x(data[pos:pos+size])
            up = UF('up_' + nm, T.BytesSort, I)
            eng.axiom(z3.Implies(z3.And(pt >= 0, pt + size <= z3.Length(data.t)), t == up(z3.Extract(data.t, pt, z3.IntVal(size)))))
        return V(INT, t)
    return f


def _mk_p(nm):
    ch, size, lo, hi = CODE_BY_NAME[nm]

    def f(eng, args, kwargs, fr, node):
        vt = eng.num(args[0]).t
        t = p_fn(nm)(vt)
        eng.axiom(z3.Length(t) == size)
        if _unpack_of_pack(eng):
            # ... and unpacking what pack produced gives the value back (struct's formats are bijections on their range)
            up = UF('up_' + nm, T.BytesSort, I)
            eng.axiom(z3.Implies(z3.And(vt >= lo, vt <= hi), up(t) == vt))
        return V(BYTES, t)
    return f


def _crc32(eng, args, kwargs, fr, node):
    b = args[0]
    if b.ty[0] == 'opt':
        b = T.opt_val(b)
    t = UF('crc32', T.BytesSort, I)(b.t)
    eng.axiom(z3.And(t >= 0, t < 2 ** 32))
    return V(INT, t)


def _pred(name, sort):
    def f(eng, args, kwargs, fr, node):
        a = args[0]
        if a.ty[0] == 'opt':
            a = T.opt_val(a)
        return V(BOOL, UF(name, sort, z3.BoolSort())(a.t))
    return f


def _conv(name, s_in, s_out, ty_out):
    def f(eng, args, kwargs, fr, node):
        a = args[0]
        if a.ty[0] == 'opt':
            a = T.opt_val(a)
        return V(ty_out, UF(name, s_in, s_out)(a.t))
    return f


def _join(eng, args, kwargs, fr, node):
    from .builtins import join_bytes
    if args[0].ty[1] == T.ANY:
        return V(BYTES, z3.Empty(T.BytesSort))
    return V(BYTES, join_bytes(eng, args[0].t))


def install(eng):
    bn = eng.builtin_names
    for nm in CODE_BY_NAME:
        bn['u_' + nm] = PyObj('builtin', _mk_u(nm))
        bn['p_' + nm] = PyObj('builtin', _mk_p(nm))
    bn['crc32'] = PyObj('builtin', _crc32)
    bn['is_ascii_b'] = PyObj('builtin', _pred('is_ascii_b', T.BytesSort))
    bn['is_utf8_b'] = PyObj('builtin', _pred('is_utf8_b', T.BytesSort))
    bn['is_ascii_s'] = PyObj('builtin', _pred('is_ascii_s', T.StrSort))
    bn['is_utf8_s'] = PyObj('builtin', _pred('is_utf8_s', T.StrSort))
    bn['dec_ascii'] = PyObj('builtin', _conv('dec_ascii', T.BytesSort, T.StrSort, STR))
    bn['dec_utf8'] = PyObj('builtin', _conv('dec_utf8', T.BytesSort, T.StrSort, STR))
    bn['enc_ascii'] = PyObj('builtin', _conv('enc_ascii', T.StrSort, T.BytesSort, BYTES))
    bn['enc_utf8'] = PyObj('builtin', _conv('enc_utf8', T.StrSort, T.BytesSort, BYTES))
    bn['join_bytes'] = PyObj('builtin', _join)
    OB = T.sort_of(T.opt(BYTES))

    def _ob(name, ret_sort, ret_ty):
        def f(eng, args, kwargs, fr, node):
            a = T.coerce(args[0], T.opt(BYTES))
            return V(ret_ty, UF(name, OB, ret_sort)(a.t))
        return f
    def _dkey(eng, args, kwargs, fr, node):
        d, i = args
        return V(d.ty[1], eng.B.dict_key_at(eng, d, eng.num(i).t))

    def _dval(eng, args, kwargs, fr, node):
        d, i = args
        return V(d.ty[2], z3.Select(T.dict_map(d), eng.B.dict_key_at(eng, d, eng.num(i).t)))

    def _grouped(eng, args, kwargs, fr, node):
        xs = args[0]
        ety = xs.ty[1]
        dty = ('dict', STR, ('dict', INT, ety))
        return V(dty, UF('grouped_' + T.mangle(ety), T.sort_of(xs.ty), T.sort_of(dty))(xs.t))
    bn['dkey'] = PyObj('builtin', _dkey)
    bn['dval'] = PyObj('builtin', _dval)
    bn['grouped'] = PyObj('builtin', _grouped)
    bn['gunzip'] = PyObj('builtin', _ob('gunzip', T.BytesSort, BYTES))
    bn['gzip_ok'] = PyObj('builtin', _ob('gzip_ok', z3.BoolSort(), BOOL))
    bn['unsnappy'] = PyObj('builtin', _ob('unsnappy', T.BytesSort, BYTES))
    bn['snappy_ok'] = PyObj('builtin', _ob('snappy_ok', z3.BoolSort(), BOOL))
