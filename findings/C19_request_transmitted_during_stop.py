import struct, sys
sys.path.insert(0, '/verif')
from twisted.internet import defer, task
from afkak import KafkaClient, Producer
from afkak.common import BrokerMetadata, TopicMetadata, PartitionMetadata
from specs.scenarios import _parse_produce_request

log = []
class BC:
    def __init__(self, n): self.node_id=n; self.host='b'; self.port=1
    def makeRequest(self, cid, req, expectResponse=True):
        d = defer.Deferred(); ver, corr, acks, parts = _parse_produce_request(req)
        log.append((self.node_id, corr, parts, d)); print('  -> request', len(log)-1, 'to node', self.node_id, {k: [v for _, v, _ in ms] for k, ms in parts.items()})
        if not expectResponse: d.callback(None)
        return d
    def connected(self): return True
clock = task.Clock()
c = KafkaClient(hosts='h:1', reactor=clock, enable_protocol_version_discovery=False, timeout=30000)
bcs = {1: BC(1)}
c._get_brokerclient = lambda n: bcs[n]
brokers = {1: BrokerMetadata(1, 'b', 1)}
pending = []
def load(*t):
    d = defer.Deferred(); pending.append(d); return d
def reply(d):
    c._merge_topic_metadata(brokers, {'t': TopicMetadata('t', 0, {p: PartitionMetadata('t', p, 0, 1, (1,), (1,)) for p in (0, 1)})}, False)
    d.callback(None)
c.load_metadata_for_topics = load
p = Producer(c, req_acks=0, batch_send=True, batch_every_n=3, batch_every_b=0, batch_every_t=5, max_req_attempts=3)
out = {}
p.send_messages('t', msgs=[b'm0a', b'm0b']).addBoth(lambda r: out.setdefault(0, r))
p.send_messages('t', msgs=[b'm1']).addBoth(lambda r: out.setdefault(1, r))
print('metadata loads pending:', len(pending))
reply(pending[0])
print('after first metadata reply: requests', len(log), 'loads pending', sum(not d.called for d in pending))
print('stop()'); p.stop(); print('  results after stop:', {k: (type(v.value).__name__ if hasattr(v, 'value') else v) for k, v in out.items()})
n = len(log)
for d in pending:
    if not d.called: reply(d)
clock.advance(10)
print('requests transmitted after stop():', len(log) - n)
sys.exit(1 if len(log) > n else 0)
