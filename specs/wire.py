"""Wire-level primitives of the Kafka protocol, written from the protocol guide (not from afkak).

STRING  = int16 length N, then N bytes; N = -1 encodes null.      (nullable string)
BYTES   = int32 length N, then N bytes; N = -1 encodes null.      (nullable bytes)
Any other negative length is malformed.
"""
from typing import Optional, Tuple

from .prims import *  # noqa


def bytes16_ok(data: bytes, cur: int) -> bool:
    """a well-formed STRING starts at cur"""
    return cur >= 0 and cur + 2 <= len(data) and (
        u_i16(data, cur) == -1 or (u_i16(data, cur) >= 0 and cur + 2 + u_i16(data, cur) <= len(data)))


def bytes16_val(data: bytes, cur: int) -> Optional[bytes]:
    if u_i16(data, cur) == -1:
        return None
    return data[cur + 2:cur + 2 + u_i16(data, cur)]


def bytes16_end(data: bytes, cur: int) -> int:
    if u_i16(data, cur) == -1:
        return cur + 2
    return cur + 2 + u_i16(data, cur)


def bytes32_ok(data: bytes, cur: int) -> bool:
    return cur >= 0 and cur + 4 <= len(data) and (
        u_i32(data, cur) == -1 or (u_i32(data, cur) >= 0 and cur + 4 + u_i32(data, cur) <= len(data)))


def bytes32_val(data: bytes, cur: int) -> Optional[bytes]:
    if u_i32(data, cur) == -1:
        return None
    return data[cur + 4:cur + 4 + u_i32(data, cur)]


def bytes32_end(data: bytes, cur: int) -> int:
    if u_i32(data, cur) == -1:
        return cur + 4
    return cur + 4 + u_i32(data, cur)


def enc_bytes16(b: Optional[bytes]) -> bytes:
    if b is None:
        return p_i16(-1)
    return p_i16(len(b)) + b


def enc_bytes32(b: Optional[bytes]) -> bytes:
    if b is None:
        return p_i32(-1)
    return p_i32(len(b)) + b


def enc_str16_ascii(s: Optional[str]) -> bytes:
    if s is None:
        return p_i16(-1)
    return p_i16(len(enc_ascii(s))) + enc_ascii(s)


def enc_str16_utf8(s: Optional[str]) -> bytes:
    if s is None:
        return p_i16(-1)
    return p_i16(len(enc_utf8(s))) + enc_utf8(s)


def str16_nonnull_ok(data: bytes, cur: int) -> bool:
    """a well-formed non-null STRING starts at cur"""
    return bytes16_ok(data, cur) and u_i16(data, cur) >= 0


def req_header(api_key: int, api_version: int, correlation_id: int, client_id: bytes) -> bytes:
    """RequestHeader v0/v1:  api_key:int16 api_version:int16 correlation_id:int32 client_id:STRING"""
    return p_i16(api_key) + p_i16(api_version) + p_i32(correlation_id) + p_i16(len(client_id)) + client_id
