"""Native definitions of the primitive spec functions (SMT side: uninterpreted functions with the axioms listed in
pyvc/prims_smt.py).  Imported by every native spec evaluation (replay, bounded stand-in)."""
import struct
import zlib


def native(f):
    return f


def _u(fmt, size):
    def u(data, pos):
        if pos < 0 or pos + size > len(data):
            return 0          # outside the buffer the SMT function is unconstrained; natively pick 0
        return struct.unpack(fmt, data[pos:pos + size])[0]
    return u


u_i8, u_u8 = _u('>b', 1), _u('>B', 1)
u_i16, u_u16 = _u('>h', 2), _u('>H', 2)
u_i32, u_u32 = _u('>i', 4), _u('>I', 4)
u_i64, u_u64 = _u('>q', 8), _u('>Q', 8)


def _p(fmt):
    def p(x):
        return struct.pack(fmt, x)
    return p


p_i8, p_u8, p_i16, p_u16 = _p('>b'), _p('>B'), _p('>h'), _p('>H')
p_i32, p_u32, p_i64, p_u64 = _p('>i'), _p('>I'), _p('>q'), _p('>Q')


def crc32(b):
    return zlib.crc32(b) & 0xFFFFFFFF


def is_ascii_b(b):
    try:
        b.decode('ascii')
        return True
    except UnicodeDecodeError:
        return False


def is_utf8_b(b):
    try:
        b.decode('utf-8')
        return True
    except UnicodeDecodeError:
        return False


def is_ascii_s(s):
    try:
        s.encode('ascii')
        return True
    except UnicodeEncodeError:
        return False


def is_utf8_s(s):
    try:
        s.encode('utf-8')
        return True
    except UnicodeEncodeError:
        return False


def dec_ascii(b):
    return b.decode('ascii')


def dec_utf8(b):
    return b.decode('utf-8')


def enc_ascii(s):
    return s.encode('ascii')


def enc_utf8(s):
    return s.encode('utf-8')


def implies(a, b):
    return (not a) or b


def ite(c, a, b):
    return a if c else b


def join_bytes(l):
    return b''.join(l)
