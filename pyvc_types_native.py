"""Tiny native-side type-string parser (mirror of pyvc.ty.parse_ty without z3) for the input generator."""
import ast

SIMPLE = {'int': ('int',), 'bool': ('bool',), 'float': ('real',), 'bytes': ('bytes',), 'str': ('str',), 'None': ('none',),
          'Any': ('any',)}


def parse(node):
    if isinstance(node, str):
        node = ast.parse(node, mode='eval').body
    if isinstance(node, ast.Constant) and node.value is None:
        return ('none',)
    if isinstance(node, ast.Name):
        return SIMPLE.get(node.id, ('struct', node.id))
    if isinstance(node, ast.Subscript):
        base = node.value.id
        sl = node.slice
        args = list(sl.elts) if isinstance(sl, ast.Tuple) else [sl]
        if base == 'Optional':
            return ('opt', parse(args[0]))
        if base in ('Tuple', 'tuple'):
            return ('tuple', tuple(parse(a) for a in args))
        if base in ('List', 'list', 'Iterable', 'Iterator', 'Sequence'):
            return ('list', parse(args[0]))
        if base in ('Dict', 'dict'):
            return ('dict', parse(args[0]), parse(args[1]))
    raise ValueError(ast.dump(node))
