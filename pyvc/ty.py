"""Type descriptors, z3 sorts and symbolic values for pyvc.

A type is a tuple: ('int',) ('bool',) ('real',) ('bytes',) ('str',) ('none',) ('any',)
('opt', T) ('tuple', (T1,...)) ('list', T) ('dict', K, V) ('set', T) ('struct', name) ('ref', cls)
('exc', clsname) ('gen', unitname, argtys) ('fn', name)

Every value is V(ty, term) with term a z3 expression of sort_of(ty).
"""
import ast
import z3

INT = ('int',)
BOOL = ('bool',)
REAL = ('real',)
BYTES = ('bytes',)
BYTEARRAY = ('bytes', 'array')     # a bytearray that the code only reads: same sort as bytes, distinct for isinstance
STR = ('str',)
NONE = ('none',)
ANY = ('any',)

BV8 = z3.BitVecSort(8)
BytesSort = z3.SeqSort(BV8)
StrSort = z3.DeclareSort('Str')
AnySort = z3.DeclareSort('Any')
UnitSort = z3.DeclareSort('NoneT')
NONE_TERM = z3.Const('None', UnitSort)

STRUCTS = {}      # name -> [(field, ty, default_ast_or_None)]
_sort_cache = {}
_dt_info = {}     # ty -> dict(constructor/accessor handles)


class TypeMismatch(Exception):
    pass


def opt(t):
    return t if t[0] == 'opt' else ('opt', t)


def tup(*ts):
    return ('tuple', tuple(ts))


def lst(t):
    return ('list', t)


def dct(k, v):
    return ('dict', k, v)


def mangle(ty):
    k = ty[0]
    if k in ('int', 'bool', 'real', 'bytes', 'str', 'none', 'any'):
        return k
    if k == 'opt':
        return 'Opt_' + mangle(ty[1])
    if k == 'tuple':
        return 'Tup%d_' % len(ty[1]) + '_'.join(mangle(t) for t in ty[1]) + '_'
    if k == 'list':
        return 'List_' + mangle(ty[1])
    if k == 'set':
        return 'Set_' + mangle(ty[1])
    if k == 'dict':
        return 'Dict_' + mangle(ty[1]) + '_' + mangle(ty[2])
    if k == 'struct':
        return ty[1]
    if k == 'ref':
        return 'Ref_' + ty[1]
    if k == 'exc':
        return 'Exc'
    if k == 'gen':
        return 'Gen_' + ty[1].replace('.', '_').replace('<', '').replace('>', '')
    if k == 'fn':
        return 'Fn'
    raise ValueError(ty)


ExcSort = None


def exc_sort():
    """Exceptions: datatype (cls: Int tag, payload: Any)."""
    global ExcSort
    if ExcSort is None:
        d = z3.Datatype('Exc')
        d.declare('mk_exc', ('exc_cls', z3.IntSort()), ('exc_id', z3.IntSort()))
        ExcSort = d.create()
    return ExcSort


def sort_of(ty):
    if ty in _sort_cache:
        return _sort_cache[ty]
    k = ty[0]
    if k == 'int':
        s = z3.IntSort()
    elif k == 'bool':
        s = z3.BoolSort()
    elif k == 'real':
        s = z3.RealSort()
    elif k == 'bytes':
        s = BytesSort
    elif k == 'str':
        s = StrSort
    elif k == 'none':
        s = UnitSort
    elif k == 'any':
        s = AnySort
    elif k in ('ref', 'fn'):
        s = z3.IntSort()
    elif k == 'exc':
        s = exc_sort()
    elif k == 'list':
        s = z3.SeqSort(sort_of(ty[1]))
    elif k == 'set':
        s = z3.ArraySort(sort_of(ty[1]), z3.BoolSort())
    elif k == 'opt':
        d = z3.Datatype(mangle(ty))
        d.declare('none_' + mangle(ty[1]))
        d.declare('some_' + mangle(ty[1]), ('val_' + mangle(ty[1]), sort_of(ty[1])))
        s = d.create()
        _dt_info[ty] = dict(none=s.constructor(0), some=s.constructor(1), is_none=s.recognizer(0),
                            is_some=s.recognizer(1), val=s.accessor(1, 0))
    elif k == 'tuple':
        d = z3.Datatype(mangle(ty))
        d.declare('mk_' + mangle(ty), *[('%s_f%d' % (mangle(ty), i), sort_of(t)) for i, t in enumerate(ty[1])])
        s = d.create()
        _dt_info[ty] = dict(mk=s.constructor(0), acc=[s.accessor(0, i) for i in range(len(ty[1]))])
    elif k == 'struct':
        fields = STRUCTS[ty[1]]
        d = z3.Datatype(ty[1])
        d.declare('mk_' + ty[1], *[('%s_%s' % (ty[1], f), sort_of(t)) for f, t, _ in fields])
        s = d.create()
        _dt_info[ty] = dict(mk=s.constructor(0), acc={f: s.accessor(0, i) for i, (f, _, _) in enumerate(fields)})
    elif k == 'dict':
        d = z3.Datatype(mangle(ty))
        ks, vs = sort_of(ty[1]), sort_of(ty[2])
        # keys: insertion order; has: membership (quantifier-free select/store reasoning); map: values
        d.declare('mk_' + mangle(ty), ('%s_keys' % mangle(ty), z3.SeqSort(ks)),
                  ('%s_has' % mangle(ty), z3.ArraySort(ks, z3.BoolSort())),
                  ('%s_map' % mangle(ty), z3.ArraySort(ks, vs)))
        s = d.create()
        _dt_info[ty] = dict(mk=s.constructor(0), keys=s.accessor(0, 0), has=s.accessor(0, 1), map=s.accessor(0, 2))
    elif k == 'gen':
        argt = ('tuple', tuple(ty[2]))
        s = sort_of(argt)
    else:
        raise ValueError(ty)
    _sort_cache[ty] = s
    return s


def info(ty):
    sort_of(ty)
    return _dt_info[ty]


class V:
    __slots__ = ('ty', 't')

    def __init__(self, ty, t):
        self.ty = ty
        self.t = t

    def __repr__(self):
        return 'V(%s, %s)' % (mangle(self.ty), self.t)


def vint(x):
    return V(INT, z3.IntVal(x) if isinstance(x, int) else x)


def vbool(x):
    return V(BOOL, z3.BoolVal(x) if isinstance(x, bool) else x)


def vreal(x):
    return V(REAL, z3.RealVal(x) if isinstance(x, (int, float, str)) else x)


VNONE = V(NONE, NONE_TERM)


def bytes_lit(b):
    if len(b) == 0:
        return z3.Empty(BytesSort)
    units = [z3.Unit(z3.BitVecVal(c, 8)) for c in b]
    return units[0] if len(units) == 1 else z3.Concat(*units)


def vbytes(b):
    return V(BYTES, bytes_lit(b) if isinstance(b, (bytes, bytearray)) else b)


_str_lits = {}


def vstr(s):
    """String literal: an interned constant of the opaque Str sort (distinct literals are distinct)."""
    if s not in _str_lits:
        _str_lits[s] = z3.Const('strlit_%d' % len(_str_lits), StrSort)
    return V(STR, _str_lits[s])


def str_lit_axioms():
    ts = list(_str_lits.values())
    return [z3.Distinct(*ts)] if len(ts) > 1 else []


def mk_tuple(vals):
    ty = ('tuple', tuple(v.ty for v in vals))
    return V(ty, info(ty)['mk'](*[v.t for v in vals]))


def tuple_items(v):
    assert v.ty[0] == 'tuple', v.ty
    acc = info(v.ty)['acc']
    return [V(t, z3.simplify(a(v.t))) if False else V(t, _acc(a, v.t)) for a, t in zip(acc, v.ty[1])]


def _acc(a, t):
    # cheap accessor-of-constructor simplification
    if z3.is_app(t) and t.decl().kind() == z3.Z3_OP_DT_CONSTRUCTOR:
        # find index of accessor
        dt = t.sort()
        for ci in range(dt.num_constructors()):
            if dt.constructor(ci).eq(t.decl()):
                for ai in range(dt.constructor(ci).arity()):
                    if dt.accessor(ci, ai).eq(a):
                        return t.arg(ai)
    return a(t)


def mk_struct(name, fieldvals):
    ty = ('struct', name)
    fields = STRUCTS[name]
    args = [coerce(fieldvals[f], t).t for f, t, _ in fields]
    return V(ty, info(ty)['mk'](*args))


def struct_field(v, f):
    assert v.ty[0] == 'struct', v.ty
    for fn, t, _ in STRUCTS[v.ty[1]]:
        if fn == f:
            return V(t, _acc(info(v.ty)['acc'][f], v.t))
    raise AttributeError(f)


def mk_none(ty):
    assert ty[0] == 'opt'
    return V(ty, info(ty)['none']())


def mk_some(v):
    ty = opt(v.ty)
    if v.ty[0] == 'opt':
        return v
    return V(ty, info(ty)['some'](v.t))


def is_none(v):
    if v.ty == NONE:
        return z3.BoolVal(True)
    if v.ty[0] == 'opt':
        t = v.t
        i = info(v.ty)
        if z3.is_app(t) and t.decl().eq(i['none']):
            return z3.BoolVal(True)
        if z3.is_app(t) and t.decl().eq(i['some']):
            return z3.BoolVal(False)
        return i['is_none'](t)
    return z3.BoolVal(False)


def opt_val(v):
    assert v.ty[0] == 'opt'
    return V(v.ty[1], _acc(info(v.ty)['val'], v.t))


def coercible(fr, to):
    try:
        _coerce_ty(fr, to)
        return True
    except TypeMismatch:
        return False


def _coerce_ty(fr, to):
    if fr == to or to == ANY:
        return
    if to[0] == 'opt':
        if fr == NONE:
            return
        if fr[0] == 'opt':
            return _coerce_ty(fr[1], to[1])
        return _coerce_ty(fr, to[1])
    if fr[0] == 'tuple' and to[0] == 'tuple' and len(fr[1]) == len(to[1]):
        for a, b in zip(fr[1], to[1]):
            _coerce_ty(a, b)
        return
    if fr == INT and to == REAL:
        return
    if fr == BOOL and to == INT:
        return
    if fr[0] == 'list' and to[0] == 'list' and fr[1] == ANY:
        return
    if fr[0] == 'dict' and to[0] == 'dict' and fr[1] == ANY:
        return
    if fr[0] == 'exc' and to[0] == 'exc':
        return
    raise TypeMismatch('cannot use a value of type %s where %s is expected' % (mangle(fr), mangle(to)))


def coerce(v, to):
    fr = v.ty
    if fr == to:
        return v
    if to == ANY:
        return V(ANY, z3.FreshConst(AnySort, 'anyv'))
    if to[0] == 'opt':
        if fr == NONE:
            return mk_none(to)
        if fr[0] == 'opt':
            if fr[1] == to[1]:
                return v
            # opt(A) -> opt(B)
            inner = coerce(opt_val(v), to[1])
            return V(to, z3.If(is_none(v), mk_none(to).t, info(to)['some'](inner.t)))
        inner = coerce(v, to[1])
        return V(to, info(to)['some'](inner.t))
    if fr[0] == 'tuple' and to[0] == 'tuple' and len(fr[1]) == len(to[1]):
        items = [coerce(x, t) for x, t in zip(tuple_items(v), to[1])]
        return V(to, info(to)['mk'](*[i.t for i in items]))
    if fr == INT and to == REAL:
        return V(REAL, z3.ToReal(v.t))
    if fr == BOOL and to == INT:
        return V(INT, z3.If(v.t, z3.IntVal(1), z3.IntVal(0)))
    if fr[0] == 'list' and to[0] == 'list' and fr[1] == ANY:
        return V(to, z3.Empty(sort_of(to)))
    if fr[0] == 'dict' and to[0] == 'dict' and fr[1] == ANY:
        return empty_dict(to)
    if fr[0] == 'exc' and to[0] == 'exc':
        return V(to, v.t)
    if fr[0] == 'bytes' and to[0] == 'bytes':
        return V(to, v.t)          # bytes <-> bytearray: the same sequence of octets
    raise TypeMismatch('cannot use a value of type %s where %s is expected' % (mangle(fr), mangle(to)))


def empty_dict(ty):
    i = info(ty)
    ks, vs = sort_of(ty[1]), sort_of(ty[2])
    dflt = z3.FreshConst(vs, 'dflt')
    return V(ty, i['mk'](z3.Empty(z3.SeqSort(ks)), z3.K(ks, z3.BoolVal(False)), z3.K(ks, dflt)))


def dict_keys(v):
    return _acc(info(v.ty)['keys'], v.t)


def dict_map(v):
    return _acc(info(v.ty)['map'], v.t)


def dict_has(v):
    return _acc(info(v.ty)['has'], v.t)


def fresh(ty, name):
    return V(ty, z3.FreshConst(sort_of(ty), name))


def const(ty, name):
    return V(ty, z3.Const(name, sort_of(ty)))


# ---------------------------------------------------------------- type annotation parsing

_SIMPLE = {'int': INT, 'bool': BOOL, 'float': REAL, 'bytes': BYTES, 'bytearray': BYTEARRAY, 'str': STR, 'None': NONE, 'Any': ANY,
           'object': ANY}


def parse_ty(node):
    if isinstance(node, str):
        node = ast.parse(node, mode='eval').body
    if isinstance(node, ast.Constant) and node.value is None:
        return NONE
    if isinstance(node, ast.Constant) and isinstance(node.value, str):
        return parse_ty(node.value)
    if isinstance(node, ast.Name):
        if node.id in _SIMPLE:
            return _SIMPLE[node.id]
        if node.id in STRUCTS:
            return ('struct', node.id)
        if node.id.startswith('Ref_'):
            return ('ref', node.id[4:])
        if node.id == 'Exc':
            return ('exc', 'Exception')
        raise ValueError('unknown type name %s' % node.id)
    if isinstance(node, ast.Subscript):
        base = node.value.id
        sl = node.slice
        args = list(sl.elts) if isinstance(sl, ast.Tuple) else [sl]
        if base == 'Optional':
            return opt(parse_ty(args[0]))
        if base in ('Tuple', 'tuple'):
            return ('tuple', tuple(parse_ty(a) for a in args))
        if base in ('List', 'list', 'Iterable', 'Iterator', 'Sequence'):
            return ('list', parse_ty(args[0]))
        if base in ('Set', 'set'):
            return ('set', parse_ty(args[0]))
        if base in ('Dict', 'dict'):
            return ('dict', parse_ty(args[0]), parse_ty(args[1]))
        if base == 'Gen':
            return ('gen', args[0].value, tuple(parse_ty(a) for a in args[1:]))
    raise ValueError('cannot parse type %s' % ast.dump(node))
