"""Front end: reads the real source under /repo on every run and indexes it.

Nothing is copied or translated by hand.  Functions are located by qualified name, e.g.
  afkak._util.read_short_bytes
  afkak.kafkacodec.KafkaCodec.decode_produce_response.<v0>
What extraction drops: docstrings, comments, type annotations, decorators other than the ones the
engine understands (classmethod/staticmethod/inlineCallbacks/property), logging calls (treated as no-ops
after their arguments are checked to be side-effect free names/attributes/constants).
"""
import ast
import hashlib
import os

REPO = os.environ.get('AFKAK_REPO', '/repo')


class FuncInfo:
    def __init__(self, qualname, node, module, cls, parent):
        self.qualname = qualname
        self.node = node
        self.module = module      # ModuleInfo
        self.cls = cls            # class name or None
        self.parent = parent      # enclosing FuncInfo or None
        self.decorators = [_dec_name(d) for d in node.decorator_list]
        self.is_generator = _has_yield(node)
        self.nested = {}          # name -> FuncInfo

    @property
    def is_classmethod(self):
        return 'classmethod' in self.decorators

    @property
    def is_staticmethod(self):
        return 'staticmethod' in self.decorators

    @property
    def is_inline_callbacks(self):
        return any(d.endswith('inlineCallbacks') for d in self.decorators)

    def ast_hash(self):
        return hashlib.sha256(ast.dump(self.node).encode()).hexdigest()[:16]


def _dec_name(d):
    if isinstance(d, ast.Name):
        return d.id
    if isinstance(d, ast.Attribute):
        return _dec_name(d.value) + '.' + d.attr
    if isinstance(d, ast.Call):
        return _dec_name(d.func)
    return '?'


def _has_yield(fn):
    """yield directly inside this function (not in nested defs/lambdas)."""
    stack = list(fn.body)
    while stack:
        n = stack.pop()
        if isinstance(n, (ast.Yield, ast.YieldFrom)):
            return True
        if isinstance(n, (ast.FunctionDef, ast.AsyncFunctionDef, ast.Lambda, ast.ClassDef)):
            continue
        stack.extend(ast.iter_child_nodes(n))
    return False


class ModuleInfo:
    def __init__(self, name, path):
        self.name = name
        self.path = path
        with open(path, 'rb') as f:
            src = f.read()
        self.sha256 = hashlib.sha256(src).hexdigest()
        self.src = src.decode('utf-8')
        self.tree = ast.parse(self.src, filename=path)
        self.assigns = {}      # module-level NAME -> value ast
        self.imports = {}      # local name -> (module, name) or (module, None)
        self.classes = {}      # class name -> ClassInfo
        self.funcs = {}        # top-level functions name -> FuncInfo
        self._index()

    def _index(self):
        for n in self.tree.body:
            if isinstance(n, ast.Assign) and len(n.targets) == 1 and isinstance(n.targets[0], ast.Name):
                self.assigns[n.targets[0].id] = n.value
            elif isinstance(n, ast.AnnAssign) and isinstance(n.target, ast.Name) and n.value is not None:
                self.assigns[n.target.id] = n.value
            elif isinstance(n, ast.ImportFrom):
                mod = ('.' * n.level) + (n.module or '')
                for a in n.names:
                    self.imports[a.asname or a.name] = (mod, a.name)
            elif isinstance(n, ast.Import):
                for a in n.names:
                    self.imports[a.asname or a.name.split('.')[0]] = (a.name, None)
            elif isinstance(n, ast.FunctionDef):
                self.funcs[n.name] = self._func(n, self.name + '.' + n.name, None, None)
            elif isinstance(n, ast.ClassDef):
                self.classes[n.name] = ClassInfo(self, n)
            elif isinstance(n, ast.Try):
                # `try: from x import y  except ImportError: ...` (optional dependency): the import is indexed, the
                # names it may or may not bind are decided by the class-level `if` variants that test them
                for m in n.body:
                    if isinstance(m, ast.ImportFrom):
                        mod = ('.' * m.level) + (m.module or '')
                        for a in m.names:
                            self.imports[a.asname or a.name] = (mod, a.name)

    def _func(self, node, qualname, cls, parent):
        fi = FuncInfo(qualname, node, self, cls, parent)
        for sub in _direct_defs(node):
            fi.nested[sub.name] = self._func(sub, qualname + '.<' + sub.name + '>', cls, fi)
        return fi


def _direct_defs(fn):
    out = []
    stack = list(fn.body)
    while stack:
        n = stack.pop(0)
        if isinstance(n, ast.FunctionDef):
            out.append(n)
            continue
        if isinstance(n, (ast.Lambda, ast.ClassDef)):
            continue
        stack.extend(ast.iter_child_nodes(n))
    return out


class ClassInfo:
    def __init__(self, module, node):
        self.module = module
        self.node = node
        self.name = node.name
        self.bases = [_dec_name(b) for b in node.bases]
        self.assigns = {}
        self.methods = {}
        self.attr_fields = []   # (name, default ast or None) in declaration order (attrs classes)
        self.variants = {}
        nif = 0
        for n in node.body:
            if isinstance(n, ast.Assign) and len(n.targets) == 1 and isinstance(n.targets[0], ast.Name):
                nm = n.targets[0].id
                self.assigns[nm] = n.value
                if isinstance(n.value, ast.Call) and _dec_name(n.value.func) in ('attr.ib', 'attr.field'):
                    dflt = None
                    for kw in n.value.keywords:
                        if kw.arg == 'default':
                            dflt = kw.value
                    self.attr_fields.append((nm, dflt))
            elif isinstance(n, ast.AnnAssign) and isinstance(n.target, ast.Name):
                nm = n.target.id
                if n.value is not None:
                    self.assigns[nm] = n.value
                if n.value is None or (isinstance(n.value, ast.Call)
                                       and _dec_name(n.value.func) in ('attr.ib', 'attr.field')):
                    dflt = None
                    if n.value is not None:
                        for kw in n.value.keywords:
                            if kw.arg == 'default':
                                dflt = kw.value
                    self.attr_fields.append((nm, dflt))
            elif isinstance(n, ast.FunctionDef):
                self.methods[n.name] = module._func(n, module.name + '.' + node.name + '.' + n.name, node.name, None)
            elif isinstance(n, ast.If):
                # a method defined in both arms of a class-level `if` (chosen at import time): both variants are
                # units (`name@if<k>` / `name@else<k>`); calls go through the common interface contract `name`
                nif += 1
                for arm, stmts in (('if', n.body), ('else', n.orelse)):
                    for m in stmts:
                        if isinstance(m, ast.FunctionDef):
                            vn = '%s@%s%d' % (m.name, arm, nif)
                            self.methods[vn] = module._func(m, module.name + '.' + node.name + '.' + vn, node.name, None)
                            self.variants.setdefault(m.name, []).append(vn)
                            if m.name not in self.methods:
                                self.methods[m.name] = module._func(m, module.name + '.' + node.name + '.' + m.name, node.name, None)
                                self.methods[m.name].interface_only = True


class Repo:
    def __init__(self, root=None):
        self.root = root or REPO
        self.modules = {}
        pkg = os.path.join(self.root, 'afkak')
        for fn in sorted(os.listdir(pkg)):
            if fn.endswith('.py'):
                name = 'afkak' if fn == '__init__.py' else 'afkak.' + fn[:-3]
                self.modules[name] = ModuleInfo(name, os.path.join(pkg, fn))

    def func(self, qualname):
        """afkak.mod.func | afkak.mod.Class.meth | ....<closure>.<closure>"""
        parts = qualname.split('.')
        # module is the longest prefix that is a module
        for i in range(len(parts), 0, -1):
            mn = '.'.join(parts[:i])
            if mn in self.modules:
                mod = self.modules[mn]
                rest = parts[i:]
                break
        else:
            raise KeyError(qualname)
        cur = None
        if rest and rest[0] in mod.classes:
            ci = mod.classes[rest[0]]
            cur = ci.methods.get(rest[1]) if len(rest) > 1 else None
            rest = rest[2:]
        elif rest and rest[0] in mod.funcs:
            cur = mod.funcs[rest[0]]
            rest = rest[1:]
        if cur is None:
            raise KeyError(qualname)
        for r in rest:
            nm = r.strip('<>')
            if nm not in cur.nested:
                raise KeyError(qualname)
            cur = cur.nested[nm]
        return cur

    def resolve_import(self, mod, name):
        """Follow `from .x import name` to (ModuleInfo, name) inside the repo; None if external."""
        imp = mod.imports.get(name)
        if imp is None:
            return None
        m, n = imp
        if m.startswith('.'):
            base = 'afkak'
            target = base + ('.' + m.lstrip('.') if m.lstrip('.') else '')
        else:
            target = m
        if n is None:
            return (self.modules.get(target), None) if target in self.modules else None
        # from . import x  (x is a module)
        if target + '.' + n in self.modules:
            return (self.modules[target + '.' + n], None)
        if target in self.modules:
            tm = self.modules[target]
            if n in tm.funcs or n in tm.classes or n in tm.assigns:
                return (tm, n)
            if n in tm.imports:
                return self.resolve_import(tm, n)
        return None


def anchors(fn_node):
    """Structural anchors for loops inside a function (not descending into nested defs):
    returns {id(node): 'for#1' | 'while#2' | 'for#1/for#1' ...}"""
    out = {}

    def walk(stmts, prefix):
        counts = {'for': 0, 'while': 0}
        for s in stmts:
            _walk_stmt(s, prefix, counts)

    def _walk_stmt(s, prefix, counts):
        if isinstance(s, (ast.FunctionDef, ast.ClassDef, ast.Lambda)):
            return
        if isinstance(s, (ast.For, ast.While)):
            k = 'for' if isinstance(s, ast.For) else 'while'
            counts[k] += 1
            name = (prefix + '/' if prefix else '') + '%s#%d' % (k, counts[k])
            out[id(s)] = name
            walk(s.body, name)
            for t in s.orelse:
                _walk_stmt(t, prefix, counts)
            return
        for fld in ('body', 'orelse', 'finalbody'):
            for t in getattr(s, fld, []) or []:
                if isinstance(t, ast.AST):
                    _walk_stmt(t, prefix, counts)
        for h in getattr(s, 'handlers', []) or []:
            for t in h.body:
                _walk_stmt(t, prefix, counts)

    walk(fn_node.body, '')
    return out
