CLAIMED = {
 'C05': dict(
   text="Proof level for the functions listed in evidence (functions_under_contract): every response decoder / wire reader under contract is proved, for all byte strings, to return exactly what an independent grammar-derived parser specification returns (loop invariants: cursor == spec position, yielded == spec item prefix). Decoders not yet under contract are named in the evidence 'explanation' and are not claimed.",
   note="Trusted: pyvc's encoding of the Python subset; struct/str codecs as uninterpreted bijections; z3/cvc5. The spec-level statement parse(encode(v)) == v of the grammar oracle itself is not proved here.",
   ref='DESIGN.md section 8 C05, section 12'),
 'C12': dict(
   text="Proof level for progress and bounded work: every wire reader under contract returns a cursor strictly beyond the one it was given and inside the buffer (or raises), and every decoder loop under contract carries a decreases clause len(data)-cur proved to drop on each completed iteration, so iterations are bounded by the input length whatever count fields claim.",
   note="CRC-32 burst-detection is a mathematical fact about CRC-32 that is assumed, not proved; gzip/snappy internals are external. Trusted: pyvc encoding, struct as uninterpreted bijection.",
   ref='DESIGN.md section 8 C12, section 12'),
 'C04': dict(
   text="Proof level for the encoders listed in evidence: the bytes each request encoder returns are proved equal, for all argument values, to an independent grammar-derived encoding (header key/version/correlation id/client id, null vs empty, per-partition order of the grouped payloads, message CRC over the bytes after it, attributes). encode_produce_request is a bounded stand-in (labelled, not counted as discharged); API-version selection (client.get_api_version) is covered by its own contract.",
   note="Trusted: pyvc encoding; struct/str codecs as uninterpreted functions; zlib.crc32 uninterpreted; group_by_topic_and_partition's contract (result == grouped(payloads)) is assumed in the encoders' proofs and checked only by the bounded stand-in.",
   ref='DESIGN.md section 8 C04, section 12'),
 'C06': dict(
   text="Proof level for _KafkaBrokerClient's request table: object invariant (key == request id, one Deferred answers one id, an uncancelled entry's Deferred is unfired, tombstones were sent) proved preserved by every entry point and asserted at every synchronous excursion into foreign code (re-entrancy); every callback/errback site carries a proved 'not already fired' precondition (at most once); handleResponse fires only the Deferred owned by the frame's correlation id, after removing it. Frame reassembly is Twisted's Int32StringReceiver (assumed).",
   note="Trusted: pyvc heap/re-entrancy encoding, the Twisted Deferred contract (fires at most once, callbacks on a fired Deferred run at once), the snapshot-loop rule used for _connectionLost. 'Exactly once' is proved as 'at most once' plus 'removed from the table only when fired or being cancelled'; eventual completion (liveness) is not claimed.",
   ref='DESIGN.md section 8 C06, section 12'),
 'C10': dict(
   text="Proof level for the reconnect discipline: invariants 'a pending connection attempt is an UNFIRED Deferred' and 'unanswered requests imply a connection or an attempt in progress' are preserved by every entry point of _KafkaBrokerClient (makeRequest, _connectionLost, cbConnect, ebConnect, cbDelayed, close ...); _connectionLost leaves no tombstone and marks survivors unsent; _sendQueued sends only entries still in the table with sent None.",
   note="Order of re-sending (table order) follows from iterating the ordered table and is not separately proved; backoff values are the retry policy's (external). Trusted: Twisted contracts, pyvc.",
   ref='DESIGN.md section 8 C10, section 12'),
 'C14': dict(
   text="Proof level for the consumer's retry/reset/growth arithmetic: _retry_fetch schedules exactly one timer with the current delay and multiplies the delay by 1.20205 capped at the maximum; the offset and fetch success handlers reset delay and attempt count before the next fetch; the error handlers errback start() only at the attempt limit or for an out-of-range offset without policy, retry otherwise, and set the fetch offset to the reset policy; _handle_fetch_response fails only when the buffer already is at its maximum and never moves the fetch offset when nothing was extracted.",
   note="Floats are treated as reals (no rounding); the geometric closed form min(init*f^k, max) is the k-fold composition of the proved one-step rule (not separately proved). Trusted: Twisted/reactor contracts, pyvc.",
   ref='DESIGN.md section 8 C14, section 12'),
 'C02': dict(
   text="Proof level for the delivery bookkeeping of Consumer._handle_fetch_response (every appended message has an offset >= the fetch offset and > the previous appended one, is stamped with the consumer's own topic/partition; the fetch offset afterwards is last delivered + 1; a reply is parked while a block is being processed), for one-request-at-a-time in _do_fetch/_retry_fetch, and for _process_messages invoking the processor only in the running state. End-to-end 'every message of the log' additionally rests on the broker returning the log contiguously and on the codec contract (C05).",
   note="The strictly-increasing property of the whole delivered sequence is the induction over the proved per-append clause. Consumer.stop() is covered by the bounded scenario stand-in only. Trusted: Twisted contracts, pyvc heap/re-entrancy encoding.",
   ref='DESIGN.md section 8 C02, section 12'),
 'C03': dict(
   text="Proof level for the commit bookkeeping units: _update_processed_offset records exactly the offset of the block that succeeded, _process_messages never invokes the processor after a failure was reported, _send_commit_request sends exactly one request carrying the last processed offset with the configured generation and member id and refuses (OperationInProgress) while one is outstanding, _update_committed_offset records the acknowledged offset only, _handle_offset_response resumes at committed+1.",
   note="The chain order processor-result -> _update_processed_offset is Twisted's callback order (trusted). commit()/auto-commit retry chains and crash points are covered by the bounded scenario stand-in, not by proof.",
   ref='DESIGN.md section 8 C03, section 12'),
 'C13': dict(
   text="Proof level for: the processor is only invoked while the consumer is running (not stopping, start Deferred unfired) and not shutting down; start() refuses a second start; every entry point guarantees that it does not end the run or clear the stopping flag while stop() is in progress (the rely clause stop()'s re-entrancy safety rests on). stop()/shutdown() themselves are checked by the bounded scenario stand-in (labelled, not proof).",
   note="Consumer.stop() was not brought within the symbolic executor's reach (500+ paths); see evidence bounded_units.",
   ref='DESIGN.md section 8 C13, section 12'),
 'C19': dict(
   text="Proof level for the batching units of Producer: send_messages adds exactly the message count and the byte total of the non-null messages and queues the request behind the earlier ones with a fresh unfired Deferred; _check_send_batch dispatches iff a configured threshold is met; _send_batch dispatches only when no batch is in flight, the queue is non-empty and the producer is not stopping, and resets queue and counters; stop() sets the stopping flag before it cancels anything. Cancellation accounting (_cancel_send_messages) and the time-limit sentence are covered by the bounded scenario stand-in.",
   note="LoopingCall ticking every period is Twisted's (assumed). Trusted: pyvc heap/re-entrancy encoding.",
   ref='DESIGN.md section 8 C19, section 12'),
 'C09': dict(
   text="Proof level for the retry discipline units: _complete_batch_send resets attempts and interval and clears the in-flight marker; _check_retry_payloads schedules a retry only while attempts < max, with the current interval as delay, then multiplies the interval by 1.20205; _do_retry counts the attempt before the response handler can run and issues exactly one request; _send_batch never dispatches while a batch is unresolved; send_messages queues in submission order.",
   note="'Only failed payloads are retried' for a TOTAL failure of a retry is a known finding (see KNOWN_FINDINGS.txt); per-partition order inside create_message_set is not under contract. Floats as reals.",
   ref='DESIGN.md section 8 C09, section 12'),
 'C01': dict(
   text="Proof level for the clauses that decide what a send Deferred may be fired with: every call of _deliver_result inside _check_retry_payloads is proved to pass ack_ok(result) - None only with acks=0, an error-free ProduceResponse, or a Failure, never a bare exception (the defect fixed in 07da27c); send_messages returns a fresh unfired Deferred. The remaining branches of _handle_send_response (polymorphic result) are covered by the bounded scenario stand-in.",
   note="Relative to the client contract (C07) and a broker that answers each partition sent; not an end-to-end statement about a real broker.",
   ref='DESIGN.md section 8 C01, section 12'),
 'C11': dict(
   text="Proof level for KafkaClient._make_request_to_broker and its two closures: exactly one timer per request armed with the client timeout (or max(timeout, minimum) for group joins); the timeout callback records a RequestTimedOutError failure before it cancels the request and disconnects iff configured; the completion callback always leaves the timer inactive (released when the reply comes first) and substitutes the timeout failure when one was recorded. Late replies to a timed-out (tombstoned) request fire nothing (brokerclient.handleResponse, C06 invariant).",
   note="That the timer fires at issued+T is the reactor's contract: the bound is proved in timer events, not seconds. Trusted: Twisted Deferred/IDelayedCall contracts, pyvc.",
   ref='DESIGN.md section 8 C11, section 12'),
 'C17': dict(
   text="Proof level for the safety core of 'never idle': rejoin_after_error is proved, branch by branch, to set the rejoin flag and leave a pending rejoin timer for every Kafka error (short backoff for rebalance / coordinator moved, long otherwise), to stop (surfacing the error through stop()) only for non-Kafka errors; a scheduled rejoin is always a PENDING timer (invariant preserved by join_and_sync and the other entry points); a Kafka error escaping the join/sync sequence is classified like any other (fix 9b13ecc). The liveness sentence (rejoins within bounded time once faults cease) is not decided.",
   note="A non-Kafka exception escaping _join_and_sync is only logged (pinned by test_join_fatal_exception): KNOWN-FINDING. Trusted: reactor timers fire, Twisted contracts.",
   ref='DESIGN.md section 8 C17, section 12'),
 'C16': dict(
   text="Proof level for the coordinator-side fencing units: _heartbeat sends only while not stopping, no rejoin is needed and no heartbeat is in flight; join_and_sync starts an exchange only when none is in flight; rejoin_after_error stops the consumers of the old generation (on_group_leave) before it schedules a rejoin on eviction errors and keeps one pending rejoin. ConsumerGroup's consumer creation/teardown and 'no request after stop' across the @inlineCallbacks sequence are covered by the bounded scenario stand-in.",
   note="on_group_leave/on_join_prepare of ConsumerGroup are represented by contracts. Trusted: Twisted contracts.",
   ref='DESIGN.md section 8 C16, section 12'),
 'C07': dict(category='other',
   text="BOUNDED stand-in only (labelled, nothing counted as proved): KafkaClient._send_broker_aware_request is driven on the real client with generated cluster layouts, payload orders, acks settings and failing brokers; oracles: one request per broker carrying that broker's payloads, responses in payload order, FailedPayloadsError accounting for every payload exactly once. The routing code is @inlineCallbacks with polymorphic encoder/decoder arguments and was not brought within the symbolic executor's reach.",
   note="No deductive obligation is discharged for C07; evidence level is 'other' with the bound stated. Broker-agnostic fallback order (connected first, then bootstrap hosts) is not covered.",
   technique='bounded stand-in for a contract-based check: the property-derived contract evaluated natively on generated scenarios (no proof)',
   ref='DESIGN.md section 12'),
 'C08': dict(category='other',
   text="updateMetadata (broker address update takes effect for later connections) is proved; the cache view after _merge_topic_metadata is checked by a BOUNDED stand-in only (generated sequences of partial metadata responses; oracle: view of covered topics equals the response, vanished partitions leave no leader behind, other topics untouched). Self-healing within the retry budget (liveness) is not decided.",
   note="evidence level 'other': one unit proved (brokerclient.updateMetadata), the merge itself bounded.",
   technique='contract on updateMetadata (proved) + bounded stand-in for the cache merge',
   ref='DESIGN.md section 12'),
 'C15': dict(category='other',
   text="Decode side under contract (decode_join_group_protocol_metadata proved against the grammar spec); the assignment function itself is checked by a BOUNDED stand-in (all permutations (<=6) of generated member sets / subscriptions / partition maps; oracles: exactly one subscribed owner per partition, balance for identical subscriptions, independence of listing order, decode(encode) round trip).",
   note="_round_robin_assignment uses sets, itertools.cycle and nested defaultdicts, outside the executor's subset.",
   technique='bounded stand-in + proved decoder contract', ref='DESIGN.md section 12'),
 'C18': dict(category='proof',
   text="pure_murmur2 is proved equal, for every key and seed, to a transcription of org.apache.kafka.common.utils.Utils.murmur2 into arithmetic on unsigned 32-bit representatives (loop invariant over the aligned groups, all four tail cases, redundant masks shown to be no-ops); both import-time variants of HashedPartitioner._hash are proved to hash the key's octets (UTF-8 of text, content of bytes/bytearray), and partition() to return partitions[toPositive(h) % n] - so the result is in the list and a function of octets and list only. RoundRobinPartitioner: _set_partitions/partition proved to perform one step of a cycle over a permutation of the given list (cursor +1 wrapping; new cycle on a changed list; result in the list).",
   note="Assumed, not proved: the Java transcription itself (checked against Kafka's six reference vectors in the thorough tier), the optional C extension, itertools.cycle/randint/sorted models, no aliasing of the caller's list. Fairness over k*n windows is the arithmetic consequence of the proved per-step contract and is exercised, not proved, by a BOUNDED scenario stand-in (also in-place list mutation).",
   technique='contracts + own VC generator over the ast of afkak/partitioner.py, z3/cvc5; uninterpreted xor with range facts; bounded scenario for window counts', ref='DESIGN.md section 14'),
 'C20': dict(category='other',
   text="Brokerclient.close() is proved (table emptied, every uncancelled request failed once, close Deferred fired only through connection loss / failed attempt: invariants of C06/C10); the bootstrap loop's _closing guards are in place (fix 05dc20c). The aggregate close Deferred of KafkaClient (_close_brokerclients nesting) is checked by a BOUNDED stand-in over generated refresh/close/connection-gone orderings.",
   note="'every request in progress fails at once' for a bootstrap connection attempt already in flight is not satisfied (it ends when the attempt resolves): KNOWN-FINDING.",
   technique='contracts on _KafkaBrokerClient.close (proved) + bounded stand-in for the client-level aggregate', ref='DESIGN.md section 12'),
}
NOT_APPLICABLE = {}
