#!/bin/sh
# helper of seedpar.sh: all seeds of one property, serially, on scratch copies
cd /verif
p=$1
for d in seeded/$p seeded/${p}[a-z]; do
  [ -d "$d" ] || continue
  id=$(basename $d)
  w=/tmp/sd/$id; rm -rf $w; mkdir -p $w; cp -r /repo/afkak $w/
  (cd $w && patch -p1 -s < /verif/$d/patch.diff) || { echo "seed $id: patch does not apply"; continue; }
  AFKAK_REPO=$w ./check $p --quick > /tmp/sd/$id.out 2>&1; rc=$?
  echo "seed $id check $p exit=$rc :: $(grep -c '^VIOLATION' /tmp/sd/$id.out) violation line(s)"
  grep '^VIOLATION\|^CHECKER\|^UNDECIDED' /tmp/sd/$id.out | head -5
  rm -rf $w
done
