"""Discharging obligations: z3 (python API) first, /usr/bin/cvc5 on unknown.  unknown/timeout is never a violation."""
import os
import subprocess
import tempfile
import time
import z3

from . import ty as T

CVC5 = '/usr/bin/cvc5'


def collect_rec_apps(exprs, rec_names):
    """all application terms of @rec spec functions in the given expressions"""
    seen = set()
    out = []
    stack = list(exprs)
    while stack:
        e = stack.pop()
        i = e.get_id()
        if i in seen:
            continue
        seen.add(i)
        if z3.is_app(e):
            if e.decl().name() in rec_names and e.decl().kind() == z3.Z3_OP_UNINTERPRETED and e.num_args() > 0:
                out.append(e)
            stack.extend(e.children())
        elif z3.is_quantifier(e):
            stack.append(e.body())
    return out


def instantiate(eng, exprs, max_rounds=3):
    """fuel-style unfolding: defining equations for the rec-apps in exprs (and, for `fuel` rounds, in the
    instances themselves).  Every instance is a true fact about the spec function, so adding it is sound."""
    from .engine import State
    done = set()
    axioms = []
    frontier = list(exprs)
    saved = eng.st
    tmp = State([])
    eng.st = tmp
    try:
        for rnd in range(max_rounds):
            apps = collect_rec_apps(frontier, set(eng.rec_apps))
            new = []
            for a in apps:
                if a.get_id() in done:
                    continue
                fn = eng.rec_apps[a.decl().name()]
                if rnd >= fn.fuel + 1:
                    continue
                done.add(a.get_id())
                eq = eng.specs.unfold(eng, fn, a)
                new.append(eq)
            if not new:
                break
            axioms.extend(new)
            frontier = new + tmp.axioms
        axioms.extend(tmp.axioms)
    finally:
        eng.st = saved
    return axioms


def build_query(eng, o):
    """formula whose unsatisfiability discharges obligation o (or whose satisfiability confirms a cover)"""
    goal = z3.BoolVal(True) if o.expect_sat and o.kind == 'cover' else z3.Not(o.cond)
    base = list(o.axioms) + list(o.pc) + [goal]
    extra = instantiate(eng, base)
    return base + extra + T.str_lit_axioms()


def check_z3(fs, timeout_ms):
    s = z3.Solver()
    s.set('timeout', timeout_ms)
    for f in fs:
        s.add(f)
    t0 = time.time()
    r = s.check()
    dt = time.time() - t0
    model = None
    reason = ''
    if r == z3.sat:
        model = s.model()
    elif r == z3.unknown:
        reason = s.reason_unknown()
    return str(r), model, dt, reason, s


def check_cvc5(solver, timeout_s):
    """same query as SMT-LIB2 text to the cvc5 CLI"""
    txt = solver.to_smt2()
    txt = '(set-logic ALL)\n' + txt
    with tempfile.NamedTemporaryFile('w', suffix='.smt2', delete=False, dir=os.environ.get('PYVC_TMP', None)) as f:
        f.write(txt)
        path = f.name
    t0 = time.time()
    try:
        p = subprocess.run([CVC5, '--strings-exp', '--tlimit=%d' % int(timeout_s * 1000), path],
                           capture_output=True, text=True, timeout=timeout_s + 5)
        out = (p.stdout or '').strip().splitlines()
        r = out[0].strip() if out else 'unknown'
        if r not in ('sat', 'unsat', 'unknown'):
            r = 'unknown'
    except subprocess.TimeoutExpired:
        r = 'unknown'
    finally:
        try:
            os.unlink(path)
        except OSError:
            pass
    return r, time.time() - t0


def discharge(eng, o, timeout_ms=10000, use_cvc5=True, cross_check=False):
    """-> dict(verdict, backend, time_s, model)"""
    fs = build_query(eng, o)
    r, model, dt, reason, solver = check_z3(fs, timeout_ms)
    res = dict(z3=r, time_s=dt, backend='z3', model=model, reason=reason)
    if r == 'unknown' and use_cvc5:
        r2, dt2 = check_cvc5(solver, timeout_ms / 1000.0)
        res['cvc5'] = r2
        res['time_s'] += dt2
        if r2 != 'unknown':
            r = r2
            res['backend'] = 'cvc5'
    elif cross_check and r in ('sat', 'unsat'):
        r2, dt2 = check_cvc5(solver, timeout_ms / 1000.0)
        res['cvc5'] = r2
        res['cvc5_time_s'] = dt2
        if r2 != 'unknown' and r2 != r:
            res['disagreement'] = True
    res['raw'] = r
    if o.expect_sat:
        res['verdict'] = {'sat': 'ok', 'unsat': 'vacuous', 'unknown': 'undecided'}[r]
    else:
        res['verdict'] = {'unsat': 'proved', 'sat': 'refuted', 'unknown': 'undecided'}[r]
    return res
