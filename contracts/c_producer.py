"""afkak/producer.py: Producer.  C19 (thresholds, stop transmits nothing), C09 (retry discipline), C01 (truthful acks)."""
from pyvc.contracts import contract
from pyvc.heap import klass
from . import c_brokerclient  # noqa

P = "afkak.producer.Producer."


@klass("ext.ProdClient")
class _:
    external = True
    fields = {"reactor": ("Ref_Reactor", False), "_api_versions": "Optional[int]"}
    methods = {"send_produce_request": dict(ret="Deferred?", trace="ProduceRequest"),
               "reset_topic_metadata": dict(trace="ResetTopic"),
               "metadata_error_for_topic": dict(ret="int"),
               "load_metadata_for_topics": dict(ret="Deferred?", trace="LoadMetadata")}


@klass("afkak.producer.Producer")
class _:
    props = ["C01", "C09", "C19"]
    fields = {
        "client": ("Ref_ProdClient", False), "req_acks": ("int", False), "ack_timeout": ("int", False),
        "_max_attempts": ("int", False), "_req_attempts": "int", "_retry_interval": "float",
        "_init_retry_interval": ("float", False), "batch_every_n": ("Optional[int]", False),
        "batch_every_b": ("Optional[int]", False), "batch_every_t": ("Optional[float]", False),
        "_sendLooper": "Optional[Ref_LoopingCall]", "_sendLooperD": "Optional[Ref_Deferred]",
        "_batch_reqs": "List[SendRequest]", "_waitingMsgCount": "int", "_waitingByteCount": "int",
        "_outstanding": "List[Ref_Deferred]", "_batch_send_d": "Optional[Ref_Deferred]", "codec": ("int", False),
        "stopping": "bool",
    }
    invariant = {
        "config": "self._init_retry_interval > 0 and self._max_attempts >= 0",
        # C09: the retry interval only grows from the configured one; attempts are counted from zero
        "interval-range": "self._retry_interval >= self._init_retry_interval",
        "attempts-nonneg": "self._req_attempts >= 0",
        "looper-running": "self._sendLooper is None or running(self._sendLooper)",
    }
    rely = {"stopping-is-final": "implies(old(self.stopping), self.stopping)"}
    class_consts = {"RETRY_INTERVAL_FACTOR": None}


SELF = "self: Ref_Producer"
ALL = ["Producer.*", "Deferred.*", "DelayedCall.*", "LoopingCall.*", "ProdClient.*"]


def method(name, sig, **kw):
    d = dict(sig=sig, props=kw.pop('props', ["C19"]), method=True, entry_point=True)
    d.update(kw)
    contract(P + name)(type('_', (), d))


method("_send_batch", "(%s) -> None" % SELF, props=["C19", "C09"], modifies=ALL, inline_only=True)

method("_check_send_batch", "(%s, result: Any = None) -> Any" % SELF, props=["C19"],
       ensures={"dispatches-iff-threshold[C19]":
                "n_calls('_send_batch') == ite((old(self.batch_every_n) is not None and old(self.batch_every_n) != 0 and "
                "old(self.batch_every_n) <= old(self._waitingMsgCount)) or (old(self.batch_every_b) is not None and "
                "old(self.batch_every_b) != 0 and old(self.batch_every_b) <= old(self._waitingByteCount)), 1, 0)"})

method("_complete_batch_send", "(%s, resp: Optional[Ref_Failure]) -> None" % SELF, props=["C09", "C19"],
       ensures={"batch-resolved[C09]": "self._batch_send_d is None and self._req_attempts == 0 and "
                                       "self._retry_interval == self._init_retry_interval"})

method("_cancel_outstanding", "(%s) -> None" % SELF, props=["C19", "C01"], modifies=ALL,
       # C19/C01: stop() fails every outstanding send: the loop runs over a COPY of the list (cancelling a send removes it
       # from the live list), and each iteration leaves its Deferred fired
       loops={"for#1": dict(index="i", inv=["True"])},
       checkpoints={"iteration-end:for#1": {"this-send-has-been-failed[C19, C01]": "called(d)"}})

method("stop", "(%s) -> Optional[Ref_Deferred]" % SELF, props=["C19", "C01"],
       # C19 "stopping ... fails every outstanding send ... transmits nothing further": the batch in flight is cancelled, the
       # batch timer stopped, every outstanding send failed, and the caller gets something to wait on
       ensures={"in-flight-batch-cancelled[C19]": "implies(old(self._batch_send_d) is not None, n_events('Cancel') >= 1)",
                # (stated for the case without a batch in flight: cancelling one runs foreign code first, which may already have stopped it)
                "batch-timer-stopped[C19]": "implies(self.batch_every_t is not None and old(self._sendLooper) is not None and "
                                            "old(self._batch_send_d) is None, n_events('LoopStop') == 1)",
                "outstanding-sends-failed[C19, C01]": "n_calls('_cancel_outstanding') == 1",
                "something-to-wait-on[C19]": "result is not None"},
       checkpoints={"fire:cancel#1": {"stopping-set-before-anything-is-cancelled[C19]": "self.stopping"},
                    "call:_cancel_outstanding#1": {"still-stopping[C19]": "self.stopping"}})

method("_send_timer_stopped", "(%s, lCall: Any) -> None" % SELF, props=["C19"],
       ensures={"cleared[C19]": "self._sendLooper is None and self._sendLooperD is None"})

method("_remove_from_outstanding", "(%s, result: Any, d: Ref_Deferred) -> Any" % SELF, props=["C01", "C19"],
       raises={"ValueError": "iff:d not in self._outstanding"},
       ensures={"removed-once[C19]": "len(self._outstanding) == len(old(self._outstanding)) - 1"})

method("_send_timer_failed", "(%s, fail: Ref_Failure) -> None" % SELF, props=["C19"],
       inv_exempt_at_entry=["looper-running"],
       requires=["self._sendLooper is not None", "not running(self._sendLooper)", "self.batch_every_t is not None"],
       ensures={"timer-restarted[C19]": "self._sendLooper is not None and running(self._sendLooper)"})


# ---- closures of _handle_send_response (C01 / C09) ----------------------------------------------------------
H_ENV = {"self": "Ref_Producer", "payloadsByTopicPart": "Dict[TopicAndPartition, ProduceRequest]",
         "deferredsByTopicPart": "Dict[TopicAndPartition, List[Ref_Deferred]]",
         "failed_payloads": "List[Tuple[ProduceRequest, Ref_Failure]]",
         "_deliver_result": "closure", "_do_retry": "closure", "_cancel_retry": "closure", "_check_retry_payloads": "closure"}


def hclosure(name, sig, **kw):
    d = dict(sig=sig, props=["C01", "C09"], entry_point=True, closure_env=dict(H_ENV))
    d['closure_env'].pop(name, None)
    d.update(kw)
    contract(P + "_handle_send_response.<%s>" % name)(type('_', (), d))


# _deliver_result fires caller Deferreds: an excursion into foreign code; what it may be given is the C01 clause
hclosure("_deliver_result", "(d_list: Any, result: Any = None) -> None", inline_only=True, external_effect=True,
         requires=["ack_ok(result, self.req_acks)"])

hclosure("_do_retry", "(payloads: List[ProduceRequest]) -> Ref_Deferred",
         checkpoints={"call:addBoth#1": {
             # C09: the attempt is counted BEFORE the response handler can run (the Deferred may already have failed)
             "attempt-counted-before-handlers[C09]": "self._req_attempts == old(self._req_attempts) + 1"}},
         ensures={"one-send[C09]": "n_events('ProduceRequest') == 1"})

# canceller of the retry wait (stop(), or the caller cancelling every send of the batch): the timer is released and every
# send of the batch is failed with the cancellation
hclosure("_cancel_retry", "(failure: Ref_Failure, dc: Ref_DelayedCall) -> Any", props=["C19", "C09"],
         requires=["active(dc)", "not failure.bare"],     # what a Deferred delivers to an errback is a real Failure
         ensures={"timer-released[C19]": "n_events('CancelTimer') == 1",
                  "failure-passed-on[C19]": "result == failure"})

hclosure("_check_retry_payloads", "(failed_payloads_with_errs: List[Tuple[ProduceRequest, Ref_Failure]]) -> Optional[Ref_Deferred]",
         raises={"KeyError": "True"}, locals={"reset_topics": "List[str]"},
         loops={"for#1": dict(index="i", inv=["True"]),
                "for#2": dict(index="i", inv=["True"])},
         checkpoints={"call:callLater#1": {
             "retry-only-below-limit[C09]": "self._req_attempts < self._max_attempts",
             "delay-is-current-interval[C09]": "True"}},
         ensures={"no-retry-at-limit[C09]": "implies(old(self._req_attempts) >= self._max_attempts, n_events('Timer') == 0)",
                  # a scheduled retry is followed by the re-send, and cancelling it (stop, caller) releases the timer
                  "retry-chain-complete[C09, C19]": "implies(n_events('Timer') == 1, n_added('_do_retry') == 1 and n_added('_cancel_retry') == 1)",
                  # C19: while stopping nothing is scheduled that would transmit later (stop() fails the sends itself)
                  "no-retry-while-stopping[C19]": "implies(old(self.stopping), n_events('Timer') == 0 and n_events('ProduceRequest') == 0)",
                  "interval-grows[C09]": "implies(old(self._req_attempts) < self._max_attempts and not old(self.stopping), n_events('Timer') == 1 and "
                                         "event_arg('Timer', 0, 0) == old(self._retry_interval) and "
                                         "self._retry_interval == old(self._retry_interval) * 1.20205)"})


contract("afkak._util._coerce_topic")(type('_', (), dict(
    sig="(topic: str) -> str", trusted=True, props=[], ensures={"same": "result == topic"},
    raises={"ValueError": "True"})))

NP_FRAME = ["Producer._req_attempts", "Producer._retry_interval", "Deferred.*", "DelayedCall.*", "ProdClient.*"]
method("_next_partition", "(%s, topic: str, key: Optional[bytes] = None) -> Ref_Deferred" % SELF, props=["C18"],
       modifies=NP_FRAME, inline_only=True, no_guarantee=True, establishes_invariant=False,
       ensures={"monotone": "self._req_attempts >= old(self._req_attempts) and self._retry_interval >= old(self._retry_interval)"})

method("_send_batch", "(%s) -> None" % SELF, props=["C19", "C09"],
       locals={"d_list": "List[Ref_Deferred]"},
       loops={"for#1": dict(index="i", heap_modifies=NP_FRAME, inv=["self._req_attempts >= 0", "self._retry_interval >= self._init_retry_interval",
                                                                   "len(d_list) == i"])},
       checkpoints={"fire:callback#1": {
           # C19: one partition lookup per queued send; the chain behind the dispatch sends the requests, then clears the in-flight
           # marker, then looks at the thresholds again ("a threshold met while a batch is in flight takes effect the moment
           # that batch resolves")
           "chain-complete[C19, C09]": "len(d_list) == len(old(self._batch_reqs)) and n_events('Add') >= 4 and n_added('_send_requests') >= 1 "
                                       "and n_added('_complete_batch_send') >= 1 and n_added('_check_send_batch') >= 1 and "
                                       "added_index('_send_requests') < added_index('_complete_batch_send') and "
                                       "added_index('_complete_batch_send') < added_index('_check_send_batch')",
           # C09/C19: a batch is dispatched only when none is in flight, something is queued and the producer is not stopping
           "only-when-idle-and-running[C19,C09]": "not old(self.stopping) and old(self._batch_send_d) is None and len(old(self._batch_reqs)) > 0",
           "queue-and-counters-reset[C19]": "len(self._batch_reqs) == 0 and self._waitingMsgCount == 0 and self._waitingByteCount == 0 "
                                            "and self._batch_send_d is not None"}},
       ensures={"dispatched-when-idle-and-running[C19]": "implies(not old(self.stopping) and old(self._batch_send_d) is None and "
                                                         "len(old(self._batch_reqs)) > 0, n_events('Fired') >= 1)",
                "no-op-otherwise[C19,C09]": "implies(old(self.stopping) or old(self._batch_send_d) is not None or len(old(self._batch_reqs)) == 0, "
                                            "n_events('Fired') == 0 and self._batch_reqs == old(self._batch_reqs) and "
                                            "self._waitingMsgCount == old(self._waitingMsgCount) and self._waitingByteCount == old(self._waitingByteCount) "
                                            "and self._batch_send_d == old(self._batch_send_d))"})

method("send_messages", "(%s, topic: str, key: Optional[bytes] = None, msgs: List[Optional[bytes]] = ()) -> Ref_Deferred" % SELF,
       props=["C19", "C01"],
       loops={"for#1": dict(index="i", inv=["byte_cnt == bytes_prefix(msgs, i)", "msg_cnt == len(msgs)"])},
       checkpoints={"call:_check_send_batch#1": {
           "accounting[C19]": "self._waitingMsgCount == old(self._waitingMsgCount) + len(msgs) and "
                              "self._waitingByteCount == old(self._waitingByteCount) + bytes_prefix(msgs, len(msgs))",
           "queued-in-order[C09]": "len(self._batch_reqs) == len(old(self._batch_reqs)) + 1 and "
                                   "self._batch_reqs[len(self._batch_reqs) - 1].messages == msgs and "
                                   "self._batch_reqs[len(self._batch_reqs) - 1].key == key and "
                                   "self._batch_reqs[len(self._batch_reqs) - 1].topic == topic",
           "fresh-unfired-deferred[C01]": "not called(self._batch_reqs[len(self._batch_reqs) - 1].deferred)",
           # the send leaves the list of outstanding sends when it resolves (stop() fails what is left in that list)
           "tracked-until-resolved[C19, C01]": "n_added('_remove_from_outstanding') == 1"}})


# ---- C19: cancelling a send -------------------------------------------------------------------------------------
method("_cancel_send_messages", "(%s, d: Ref_Deferred) -> None" % SELF, props=["C19"],
       requires=["not called(d)"],
       locals={"msgs": "List[Optional[bytes]]"},
       # stated over the queue entry being removed (`req`, the element whose Deferred is d), not over temporaries
       loops={"for#1": dict(index="i", inv=["self._waitingMsgCount == old(self._waitingMsgCount)",
                                            "self._waitingByteCount == old(self._waitingByteCount)",
                                            "self._batch_reqs == old(self._batch_reqs)", "not called(d)"]),
              "for#1/for#1": dict(index="j", inv=["self._waitingMsgCount == old(self._waitingMsgCount) - len(req.messages)",
                                                  "self._batch_reqs == old(self._batch_reqs)", "not called(d)",
                                                  "req.deferred == d"])},
       checkpoints={"fire:errback#1": {
           # C19: cancelling before dispatch removes the send from the queue and ALL its messages (null ones too) from
           # the count that is compared with the batch threshold (the byte total runs over a filtered generator, whose element
           # positions the executor does not relate to the list: not claimed here, exercised by producer_e2e)
           "removed-from-count-accounting[C19]": "self._waitingMsgCount == old(self._waitingMsgCount) - len(req.messages)",
           "removed-from-queue[C19]": "len(self._batch_reqs) == len(old(self._batch_reqs)) - 1"}},
       ensures={"caller-detached[C19]": "called(d)"})


# ---- C01: the classification of a produce result (outer body of _handle_send_response) ------------------------------
method("_handle_send_response",
       "(%s, result: Any, payloadsByTopicPart: Dict[TopicAndPartition, ProduceRequest], "
       "deferredsByTopicPart: Dict[TopicAndPartition, List[Ref_Deferred]]) -> Optional[Ref_Deferred]" % SELF,
       props=["C01"], poly=["result"], exceptions_as_bare_failures=True,
       type_instances={"responses": {"result": "List[ProduceResponse]"}, "no-result": {"result": "None"}},
       locals={"failed_payloads": "List[Tuple[ProduceRequest, Ref_Failure]]"},
       raises={"KeyError": "True"},
       loops={"for#1": dict(index="i", inv=["True"])},
       notes="the Failure-typed result (FailedPayloadsError carrying responses and failed payloads in its args) is outside "
             "the subset; explored by producer_e2e")


# ---- C19 / C01: dispatch of a batch once the partition lookups are in -------------------------------------------------
contract("afkak.kafkacodec.create_message_set")(type('_', (), dict(
    sig="(requests: List[SendRequest], codec: int = 0, magic: int = 0) -> List[Message]", trusted=True, props=[],
    raises={"Exception": "True"},
    assumes=["afkak.kafkacodec.create_message_set is represented by a trusted contract inside Producer._send_requests (the message "
             "format it is asked for is a listed KNOWN-FINDING of C04; its output is checked by the producer_e2e scenario)"])))

method("_send_requests", "(%s, parts_results: List[Tuple[bool, Any]], requests: List[SendRequest]) -> Optional[Ref_Deferred]" % SELF,
       props=["C19", "C01"], raises={"Exception": "True"},
       locals={"reqsByTopicPart": "Dict[TopicAndPartition, List[SendRequest]]",
               "payloadsByTopicPart": "Dict[TopicAndPartition, ProduceRequest]",
               "deferredsByTopicPart": "Dict[TopicAndPartition, List[Ref_Deferred]]",
               "payloads": "List[ProduceRequest]", "part_or_failure": "int"},
       loops={"for#1": dict(index="i", inv=["True"]), "for#2": dict(index="j", inv=["len(payloads) == j"])},
       # implicit obligation of every fire: `req.deferred.errback(...)` only on a Deferred that has not fired (a send cancelled
       # while its partition lookup was pending is skipped, "cancelling later only detaches the caller")
       ensures={"nothing-while-stopping[C19]": "implies(old(self.stopping), n_events('ProduceRequest') == 0 and n_events('Fired') == 0)",
                "one-request-per-dispatch[C09]": "n_events('ProduceRequest') <= 1"},
       checkpoints={
           # C19/C01: a send is failed here only when its partition lookup failed; it joins a request only when the lookup
           # succeeded and its Deferred has not fired (cancelled sends are never transmitted)
           "fire:errback#1": {"only-failed-lookups-are-failed[C01]": "not success"},
           "call:append#1": {"only-live-sends-with-a-partition-are-transmitted[C19, C01]": "success and not called(req.deferred)"},
           "call:addBoth#1": {
           "response-handler-attached[C01, C09]": "True",
           # exactly one produce request went out before the response handler is attached (failing a send in the loop above
           # runs caller code, which may re-enter the producer: no two-state claim about the attempt counter here)
           "one-request-then-handler[C09]": "n_events('ProduceRequest') == 1"}})
