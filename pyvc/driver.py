"""Driver: property -> units -> obligations -> verdicts -> replay -> evidence.  Exit codes: 0 held, 1 violation,
2 undecided, 3 checker failure.  unknown/timeouts/tracebacks are never mapped to a violation."""
import hashlib
import importlib
import json
import multiprocessing as mp
import os
import sys
import time
import traceback

VERIF = os.path.dirname(os.path.dirname(os.path.abspath(__file__)))
sys.path.insert(0, VERIF)

CONTRACT_MODULES = ['c_util', 'c_codec_dec', 'c_codec_dec2', 'c_codec_enc', 'c_brokerclient', 'c_consumer', 'c_producer', 'c_client', 'c_group', 'c_partitioner']

_ENG = None


def load_all():
    from pyvc.frontend import Repo
    from pyvc import typesync
    from pyvc.specs import SpecLib
    from pyvc.engine import Engine
    from contracts.types import STRUCT_TYPES
    from specs import grammar
    os.makedirs(os.path.join(VERIF, 'build'), exist_ok=True)
    grammar.write(os.path.join(VERIF, 'specs', 'gen_parse.py'))
    repo = Repo()
    typesync.register(repo, STRUCT_TYPES)
    for m in CONTRACT_MODULES:
        importlib.import_module('contracts.' + m)
    specs = SpecLib([os.path.join(VERIF, 'specs')])
    eng = Engine(repo, specs)
    return eng


def jobs_for(eng, prop):
    """(qualname, instance) for every unit under contract that carries a clause for `prop`"""
    from pyvc.contracts import CONTRACTS
    from pyvc import units
    out = []
    for qn, c in CONTRACTS.items():
        if c.inline or c.trusted or c.extra.get('bounded') or c.extra.get('inline_only'):
            continue
        props = c.all_props()
        if prop is not None and prop not in props:
            continue
        if c.extra.get('instances') == 'relative_unpack-formats':
            for f in units.formats_in_repo(eng.repo):
                out.append((qn, {'fmt': f}))
        elif c.extra.get('type_instances'):
            for label, tys in c.extra['type_instances'].items():
                out.append((qn, {'@types': dict(tys), '@label': label}))
        else:
            out.append((qn, None))
    return out


def _worker_init():
    global _ENG
    try:
        _ENG = load_all()
    except Exception:
        _ENG = ('error', traceback.format_exc())


def _run_job(args):
    qn, inst, prop, timeout_ms, cross = args
    from pyvc import units
    if isinstance(_ENG, tuple):
        return dict(qualname=qn, instance=inst, error=_ENG[1], obls=[], undecided=None, paths=0, time_s=0, src_hash=None, dead_ends=[])
    eng = _ENG
    r = units.run_unit(eng, qn, timeout_ms=timeout_ms, instance=inst, cross_check=cross)
    obls = []
    for o, res in r.obls:
        relevant = prop is None or prop in (o.props or []) or o.kind in ('pre', 'inv.init', 'inv.keep', 'dec', 'cover', 'type', 'unexpected-exception', 'applicability')
        if not relevant:
            continue
        d = dict(name=o.name, kind=o.kind, path=o.path, props=o.props, note=o.note, expect_sat=o.expect_sat,
                 verdict=res['verdict'], backend=res['backend'], time_s=round(res['time_s'], 4), raw=res['raw'],
                 z3=res.get('z3'), cvc5=res.get('cvc5'), disagreement=res.get('disagreement', False),
                 reason=res.get('reason', ''))
        if res['verdict'] == 'refuted' and res.get('model') is not None:
            try:
                d['model'] = units.model_inputs(eng, o, res['model'])
            except Exception as e:
                d['model_error'] = '%s: %s' % (type(e).__name__, e)
            d['smt_head'] = str(o.cond)[:600]
        obls.append(d)
    return dict(qualname=qn, instance=inst, error=r.error, undecided=r.undecided, paths=r.paths,
                time_s=round(r.time_s, 3), src_hash=r.src_hash, obls=obls, dead_ends=list(r.dead_ends))


def run_property(prop, tier='quick', nproc=None):
    timeout_ms = 10000 if tier == 'quick' else 60000
    cross = tier == 'thorough'
    eng = load_all()
    jobs = jobs_for(eng, prop)
    nproc = nproc or min(16, max(1, len(jobs)))
    args = [(qn, inst, prop, timeout_ms, cross) for qn, inst in jobs]
    t0 = time.time()
    if nproc == 1 or len(jobs) <= 1:
        _worker_init()
        results = [_run_job(a) for a in args]
    else:
        ctx = mp.get_context('fork')
        with ctx.Pool(nproc, initializer=_worker_init) as pool:
            results = pool.map(_run_job, args, chunksize=1)
    return eng, results, time.time() - t0


def file_hashes(eng):
    return {m.name: m.sha256[:16] for m in eng.repo.modules.values()}


def bounded_jobs(prop):
    from pyvc.contracts import CONTRACTS
    out = []
    for qn, c in CONTRACTS.items():
        if not c.extra.get('bounded'):
            continue
        if prop in c.all_props():
            out.append(qn)
    return out


def immutable_conflicts(eng):
    """fields the sidecar declares immutable (never forgotten at a havoc, read as constants by every unit) that some
    method of the class other than __init__ assigns or mutates in place - whether or not that method is under contract"""
    import ast
    from pyvc.heap import KLASSES
    MUT = {'append', 'add', 'extend', 'pop', 'popitem', 'setdefault', 'update', 'remove', 'clear', 'discard', 'insert', 'sort', 'reverse'}
    out = []
    for kname, k in KLASSES.items():
        if k.external:
            continue
        names = [kname] + list(getattr(k, 'subclass_methods', []) or [])
        for m in eng.repo.modules.values():
            for nm in names:
                ci = m.classes.get(nm)
                if ci is None:
                    continue
                for mname, fi in ci.methods.items():
                    if mname == '__init__':
                        continue
                    for n in ast.walk(fi.node):
                        tgts = []
                        if isinstance(n, ast.Assign):
                            tgts = n.targets
                        elif isinstance(n, (ast.AugAssign, ast.AnnAssign)):
                            tgts = [n.target]
                        elif isinstance(n, ast.Delete):
                            tgts = n.targets
                        elif isinstance(n, ast.Call) and isinstance(n.func, ast.Attribute) and n.func.attr in MUT:
                            tgts = [n.func.value]
                        for t in tgts:
                            for t2 in (t.elts if isinstance(t, (ast.Tuple, ast.List)) else [t]):
                                while isinstance(t2, ast.Subscript):
                                    t2 = t2.value
                                if isinstance(t2, ast.Attribute) and isinstance(t2.value, ast.Name) and t2.value.id in ('self', 'cls'):
                                    f = t2.attr
                                    if f in k.fields and not k.fields[f][1]:
                                        out.append((kname, f, '%s.%s' % (nm, mname), n.lineno))
    return out
