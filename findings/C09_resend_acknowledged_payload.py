import struct, sys
sys.path.insert(0, '/verif')
from twisted.internet import defer, task
from afkak import KafkaClient, Producer
from afkak.common import BrokerMetadata, TopicMetadata, PartitionMetadata
from specs.scenarios import _parse_produce_request

log = []
class BC:
    def __init__(self, n): self.node_id=n; self.host='b'; self.port=1
    def makeRequest(self, cid, req, expectResponse=True):
        d = defer.Deferred(); ver, corr, acks, parts = _parse_produce_request(req)
        log.append((self.node_id, corr, parts, d)); return d
    def connected(self): return True
clock = task.Clock()
c = KafkaClient(hosts='h:1', reactor=clock, enable_protocol_version_discovery=False)
bcs = {1: BC(1), 2: BC(2)}
c._get_brokerclient = lambda n: bcs[n]
brokers = {i: BrokerMetadata(i, 'b', 1) for i in (1, 2)}
def load(*t):
    c._merge_topic_metadata(brokers, {'t': TopicMetadata('t', 0, {p: PartitionMetadata('t', p, 0, p + 1, (1,), (1,)) for p in (0, 1)})}, False)
    return defer.succeed(None)
c.load_metadata_for_topics = load; load()
p = Producer(c, batch_send=True, batch_every_n=2, batch_every_b=0, batch_every_t=0, max_req_attempts=3)
out = {}
for i in (0, 1):
    p.send_messages('t', msgs=[b'msg%d' % i]).addBoth(lambda r, i=i: out.setdefault(i, r))
def answer(i, code):
    node, corr, parts, d = log[i]
    body = struct.pack('>ii', corr, 1) + struct.pack('>h', 1) + b't' + struct.pack('>i', len(parts))
    for (t, pt) in parts: body += struct.pack('>ihq', pt, code, 42)
    d.callback(body)
print('first attempt :', [(n, {k: [v for _, v, _ in ms] for k, ms in parts.items()}) for n, _, parts, _ in log])
answer(0, 7)      # partition 0's leader: REQUEST_TIMED_OUT
answer(1, 0)      # partition 1's leader: acknowledged
print('after replies : send results', out)
clock.advance(1.0)
print('second attempt:', [(n, {k: [v for _, v, _ in ms] for k, ms in parts.items()}) for n, _, parts, _ in log[2:]])
resent = any(('t', 1) in parts for n, _, parts, _ in log[2:])
print('acknowledged payload of partition 1 transmitted again:', resent, '| reported at once:', 1 in out)
sys.exit(1 if resent or 1 not in out else 0)
