"""Specification functions.

Spec functions are ordinary Python (a small pure subset) in /verif/specs/*.py so that ONE definition has two
interpretations: executed natively (replay, bounded stand-in, run-time wrapper) and interpreted symbolically by
the engine in pure mode (conditionals -> ite).  Recursive ones (decorated @rec) become uninterpreted SMT
functions whose defining equation is instantiated by the generator for every application term occurring in a
VC ("fuel"), because z3 cannot build counter-models through solver-level recursive definitions.
Primitives (decorated @prim) are uninterpreted in SMT and have a native body.
"""
import ast
import os
import z3

from . import ty as T
from .ty import V, INT, BOOL, VNONE


class SpecFn:
    def __init__(self, name, node, module, kind):
        self.name = name
        self.node = node
        self.module = module
        self.kind = kind          # 'pure' | 'rec' | 'prim'
        self.params = [(a.arg, T.parse_ty(a.annotation)) for a in node.args.args]
        self.ret_ty = T.parse_ty(node.returns)
        self._uf = None
        self.fuel = 1
        for d in node.decorator_list:
            if isinstance(d, ast.Call) and getattr(d.func, 'id', '') == 'rec':
                for kw in d.keywords:
                    if kw.arg == 'fuel':
                        self.fuel = kw.value.value

    def uf(self):
        if self._uf is None:
            self._uf = z3.Function('spec_' + self.name, *[T.sort_of(t) for _, t in self.params], T.sort_of(self.ret_ty))
        return self._uf


class SpecLib:
    def __init__(self, dirs):
        self.fns = {}
        self.consts = {}
        self.modules = []
        for d in dirs:
            for fn in sorted(os.listdir(d)):
                if fn.endswith('.py') and not fn.startswith('_') and fn not in ('grammar.py', 'structs.py', 'prims.py', 'natparse.py', 'scenarios.py', 'gen_inputs.py'):
                    self.load(os.path.join(d, fn))

    def load(self, path):
        src = open(path).read()
        tree = ast.parse(src, filename=path)
        self.modules.append(path)
        for n in tree.body:
            if isinstance(n, ast.FunctionDef):
                kinds = [_dn(d) for d in n.decorator_list]
                if 'native' in kinds:
                    continue
                kind = 'rec' if 'rec' in kinds else 'prim' if 'prim' in kinds else 'pure'
                if n.returns is None:
                    continue
                self.fns[n.name] = SpecFn(n.name, n, path, kind)
            elif isinstance(n, ast.Assign) and len(n.targets) == 1 and isinstance(n.targets[0], ast.Name):
                if isinstance(n.value, ast.Constant) or isinstance(n.value, ast.UnaryOp) or isinstance(n.value, ast.BinOp):
                    self.consts[n.targets[0].id] = n.value

    def has(self, name):
        return name in self.fns or name in self.consts

    def get(self, name):
        if name in self.fns:
            return self.fns[name]
        return ('const', self.consts[name])

    def call(self, eng, fn, args, kwargs):
        from .engine import Frame, Unsupported
        if isinstance(fn, tuple):
            raise Unsupported('spec constant called')
        if len(args) != len(fn.params):
            raise Unsupported('spec %s called with %d args' % (fn.name, len(args)))
        cargs = []
        for (pn, pt), a in zip(fn.params, args):
            if isinstance(a, V) and a.ty[0] == 'opt' and pt[0] != 'opt' and pt != T.ANY:
                a = T.opt_val(a)       # specs are total: a null argument is outside the domain (underspecified)
            try:
                cargs.append(T.coerce(a, pt))
            except T.TypeMismatch as e:
                raise Unsupported('spec %s argument %s: %s' % (fn.name, pn, e))
        if fn.kind in ('rec', 'prim'):
            app = fn.uf()(*[a.t for a in cargs])
            if fn.kind == 'rec':
                eng.rec_apps[fn.uf().name()] = fn
            else:
                ax = PRIM_AXIOMS.get(fn.name)
                if ax is not None:
                    for c in ax(eng, app, cargs):
                        eng.axiom(c)
            return V(fn.ret_ty, app)
        return self.inline(eng, fn, cargs)

    def inline(self, eng, fn, cargs):
        from .engine import Frame
        fr = Frame(None)
        fr.specfn = fn
        for (pn, pt), a in zip(fn.params, cargs):
            fr.vars[pn] = a
        saved = eng.pure
        eng.pure = True
        try:
            return self.pure_block(eng, fn.node.body, fr, fn.ret_ty)
        finally:
            eng.pure = saved

    def pure_block(self, eng, stmts, fr, ret_ty):
        from .engine import Unsupported
        for i, s in enumerate(stmts):
            if isinstance(s, ast.Expr) and isinstance(s.value, ast.Constant):
                continue
            if isinstance(s, ast.Assign):
                v = eng.eval(s.value, fr)
                for t in s.targets:
                    eng.assign(t, v, fr)
                continue
            if isinstance(s, ast.Return):
                v = eng.eval(s.value, fr)
                try:
                    return T.coerce(v, ret_ty)
                except T.TypeMismatch as e:
                    raise Unsupported('spec return: %s' % e)
            if isinstance(s, ast.If):
                c = eng.truth(eng.eval(s.test, fr))
                sc = z3.simplify(c)
                rest = stmts[i + 1:]
                if z3.is_true(sc):
                    return self.pure_block(eng, list(s.body) + rest, fr, ret_ty)
                if z3.is_false(sc):
                    return self.pure_block(eng, list(s.orelse) + rest, fr, ret_ty)
                f1 = _copy_frame(fr)
                a = self.pure_block(eng, list(s.body) + rest, f1, ret_ty)
                f2 = _copy_frame(fr)
                b = self.pure_block(eng, list(s.orelse) + rest, f2, ret_ty)
                return V(ret_ty, z3.If(c, a.t, b.t))
            if isinstance(s, ast.Assert):
                continue
            raise Unsupported('statement %s in spec function' % type(s).__name__)
        raise Unsupported('spec function falls off the end')

    def unfold(self, eng, fn, app):
        """defining equation of a @rec function instantiated at one application term"""
        args = [V(pt, app.arg(i)) for i, (pn, pt) in enumerate(fn.params)]
        body = self.inline(eng, fn, args)
        return app == body.t


def _copy_frame(fr):
    from .engine import Frame
    f = Frame(fr.func, fr.parent)
    f.vars = dict(fr.vars)
    f.ghost = fr.ghost
    f.loop_pre = fr.loop_pre
    if hasattr(fr, 'specfn'):
        f.specfn = fr.specfn
    return f


def _dn(d):
    if isinstance(d, ast.Name):
        return d.id
    if isinstance(d, ast.Call):
        return _dn(d.func)
    if isinstance(d, ast.Attribute):
        return d.attr
    return '?'


PRIM_AXIOMS = {}


def prim_axioms(name):
    def deco(f):
        PRIM_AXIOMS[name] = f
        return f
    return deco
