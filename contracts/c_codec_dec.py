"""Contracts for the response decoders of afkak/kafkacodec.py.  C05: decoded == independent parser spec;
C12: every completed loop iteration strictly advances the cursor (work bounded by the input length)."""
from pyvc.contracts import contract
from . import c_util  # noqa

ALLOWED_DECODE_ERRORS = {
    "BufferUnderflowError": "True", "ProtocolError": "True", "AttributeError": "True", "UnicodeDecodeError": "True",
}


def two_level(qualname, prefix, item, closure_env=None, sig=None, h="4", requires=(), search=None):
    d = dict(
        sig=sig or "(data: bytes) -> List[%s]" % item, requires=list(requires), search=search or {"data": "resp:" + prefix},
        kind="generator", item=item, props=["C05", "C12"],
        ensures={"func[C05]": "result == {p}_items_outer(data, {h}, {p}_topics_cnt(data, {h}))".format(p=prefix, h=h),
                 },
        raises=dict(ALLOWED_DECODE_ERRORS),
        loops={
            "for#1": dict(index="i", decreases="len(data) - cur", inv=[
                "cur == {p}_topics_pos(data, {h}, i)".format(p=prefix, h=h),
                "yielded == {p}_items_outer(data, {h}, i)".format(p=prefix, h=h),
                "num_topics == {p}_topics_cnt(data, {h})".format(p=prefix, h=h),
                "4 <= cur and cur <= len(data)".format()]),
            "for#1/for#1": dict(index="j", decreases="len(data) - cur", inv=[
                "cur == {p}_parts_pos(data, {p}_topics_e_pos_partitions(data, {p}_topics_pos(data, {h}, i)), j)".format(p=prefix, h=h),
                "yielded == {p}_items_outer(data, {h}, i) + {p}_items_inner(data, {p}_topics_pos(data, {h}, i), "
                "{p}_topics_e_pos_partitions(data, {p}_topics_pos(data, {h}, i)), j)".format(p=prefix, h=h),
                "num_partitions == {p}_parts_cnt(data, {p}_topics_e_pos_partitions(data, {p}_topics_pos(data, {h}, i)))".format(p=prefix, h=h),
                "topic == {p}_topics_e_topic(data, {p}_topics_pos(data, {h}, i))".format(p=prefix, h=h),
                "i < num_topics",
                "pre(cur) <= cur",
                "num_topics == {p}_topics_cnt(data, {h})".format(p=prefix, h=h),
                "4 <= cur and cur <= len(data)".format()]),
        })
    if closure_env:
        d['closure_env'] = closure_env
    contract(qualname)(type('_', (), d))


two_level("afkak.kafkacodec.KafkaCodec.decode_offset_commit_response", "ocr", "OffsetCommitResponse")
two_level("afkak.kafkacodec.KafkaCodec.decode_offset_fetch_response", "ofr", "OffsetFetchResponse")
two_level("afkak.kafkacodec.KafkaCodec.decode_produce_response.<v0>", "prv0", "ProduceResponse")
two_level("afkak.kafkacodec.KafkaCodec.decode_produce_response.<v2>", "prv2", "ProduceResponse")

two_level("afkak.kafkacodec.KafkaCodec.decode_fetch_response", "fr", "FetchResponse",
          sig="(data: bytes, api_version: int = 0) -> List[FetchResponse]", h="ite(api_version == 0, 4, 8)",
          requires=["api_version == 0 or api_version >= 2"], search={"data": "resp:fr", "api_version": "choice:[0]"})


# ---------------------------------------------------------------------------------------------- three levels
# OffsetResponse: [topic [partition error [offset]]] - the innermost array is collected into a tuple per partition
_T = "orr_topics_pos(data, 4, i)"
_A2 = "orr_topics_e_pos_partitions(data, %s)" % _T
_P = "orr_parts_pos(data, %s, j)" % _A2
_A3 = "orr_parts_e_pos_offsets(data, %s)" % _P
_OUTER = ["num_topics == orr_topics_cnt(data, 4)", "4 <= cur and cur <= len(data)"]
_MID = ["yielded == orr_items_outer(data, 4, i) + orr_items_inner(data, %s, %s, j)" % (_T, _A2),
        "num_partitions == orr_parts_cnt(data, %s)" % _A2, "topic == orr_topics_e_topic(data, %s)" % _T,
        "i < num_topics"] + _OUTER

contract("afkak.kafkacodec.KafkaCodec.decode_offset_response")(type('_', (), dict(
    sig="(data: bytes) -> List[OffsetResponse]", search={"data": "resp:orr"}, kind="generator", item="OffsetResponse",
    props=["C05", "C12"], locals={"offsets": "List[int]"},
    ensures={"func[C05]": "result == orr_items_outer(data, 4, orr_topics_cnt(data, 4))"},
    raises=dict(ALLOWED_DECODE_ERRORS),
    loops={
        "for#1": dict(index="i", decreases="len(data) - cur", inv=[
            "cur == %s" % _T, "yielded == orr_items_outer(data, 4, i)"] + _OUTER),
        "for#1/for#1": dict(index="j", decreases="len(data) - cur", inv=["cur == %s" % _P, "pre(cur) <= cur"] + _MID),
        "for#1/for#1/for#1": dict(index="k", decreases="len(data) - cur", inv=[
            "cur == or_offs_pos(data, %s, k)" % _A3, "offsets == or_off_items(data, %s, k)" % _A3,
            "num_offsets == or_offs_cnt(data, %s)" % _A3,
            "partition == orr_parts_e_partition(data, %s)" % _P, "error == orr_parts_e_error(data, %s)" % _P,
            "j < num_partitions", "pre(cur) <= cur"] + _MID),
    })))
