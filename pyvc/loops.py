"""Loops: cut by inductive invariants from the sidecar contract (anchored structurally: for#1, for#1/while#1)."""
import ast
import z3

from . import ty as T
from .ty import V, INT, BOOL, ANY, VNONE, vint, vbool


def anchor_of(eng, s, fr):
    from .frontend import anchors
    f = fr
    while f is not None and f.func is None:
        f = f.parent
    fi = f.func if f is not None else None
    if fi is None:
        return None
    if not hasattr(fi, '_anchors'):
        fi._anchors = anchors(fi.node)
    return fi._anchors.get(id(s))


def loop_spec(eng, anchor, fr):
    c = eng.contract_for_frame(fr)
    if c is None:
        return None
    return c.loops.get(anchor)


def assigned_names(stmts):
    """Names a loop body may rebind or mutate in place (syntactic over-approximation)."""
    out = set()

    def tgt(t):
        if isinstance(t, ast.Name):
            out.add(t.id)
        elif isinstance(t, (ast.Tuple, ast.List)):
            for e in t.elts:
                tgt(e)
        elif isinstance(t, ast.Subscript):
            tgt(t.value)
        elif isinstance(t, ast.Starred):
            tgt(t.value)

    class Vis(ast.NodeVisitor):
        def visit_Assign(self, n):
            for t in n.targets:
                tgt(t)
            self.generic_visit(n)

        def visit_AugAssign(self, n):
            tgt(n.target)
            self.generic_visit(n)

        def visit_AnnAssign(self, n):
            tgt(n.target)
            self.generic_visit(n)

        def visit_For(self, n):
            tgt(n.target)
            self.generic_visit(n)

        def visit_Delete(self, n):
            for t in n.targets:
                tgt(t)

        def visit_Call(self, n):
            f = n.func
            if isinstance(f, ast.Attribute) and f.attr in ('append', 'add', 'extend', 'pop', 'popitem', 'setdefault',
                                                           'update', 'remove', 'clear', 'add', 'discard', 'insert'):
                tgt(f.value)
            self.generic_visit(n)

        def visit_ExceptHandler(self, n):
            if n.name:
                out.add(n.name)
            self.generic_visit(n)

        def visit_FunctionDef(self, n):
            out.add(n.name)

        def visit_Lambda(self, n):
            pass

    v = Vis()
    for s in stmts:
        v.visit(s)
    return out


def has_yield(stmts):
    for s in stmts:
        for n in ast.walk(s):
            if isinstance(n, (ast.Yield, ast.YieldFrom)):
                return True
    return False


def iteration_model(eng, it, fr):
    """-> (length term, elem_at(idx_term) -> value, after_exit callback or None)"""
    from .engine import PyObj, Unsupported, PyRaise
    if isinstance(it, PyObj) and it.kind == 'range':
        a = it.payload
        if len(a) == 1:
            n = eng.num(a[0]).t
            return n, (lambda i: V(INT, i)), None
        if len(a) == 2:
            lo, hi = eng.num(a[0]).t, eng.num(a[1]).t
            return hi - lo, (lambda i: V(INT, lo + i)), None
        raise Unsupported('range with step')
    if isinstance(it, PyObj) and it.kind == 'dictview':
        d, what = it.payload
        if d.ty[1] == ANY:
            return z3.IntVal(0), (lambda i: VNONE), None
        keys, mp = T.dict_keys(d), T.dict_map(d)
        n = z3.Length(keys)
        fr.ghost['iter_live_dict'] = d
        from . import heapglue
        prov = heapglue.table_prov(eng, d)
        if prov is not None:
            eng.st.ghost['live_iter'] = (prov[0].t.get_id(), prov[1])
            eng.st.ghost['live_iter_mutated'] = False

        def entry(i):
            kt_ = eng.B.dict_key_at(eng, d, i)
            k_, v_ = V(d.ty[1], kt_), V(d.ty[2], z3.Select(mp, kt_))
            heapglue.note_entry_read(eng, d, k_, v_, z3.And(i >= 0, i < n))
            return k_, v_
        if what == 'keys':
            return n, (lambda i: entry(i)[0]), None
        if what == 'values':
            return n, (lambda i: entry(i)[1]), None
        return n, (lambda i: T.mk_tuple(list(entry(i)))), None
    if isinstance(it, V) and it.ty[0] == 'dict':
        if it.ty[1] == ANY:
            return z3.IntVal(0), (lambda i: VNONE), None
        keys = T.dict_keys(it)
        return z3.Length(keys), (lambda i: V(it.ty[1], eng.B.dict_key_at(eng, it, i))), None
    if isinstance(it, V) and it.ty[0] == 'list':
        if it.ty[1] == ANY:
            return z3.IntVal(0), (lambda i: VNONE), None
        fr.ghost['iter_seq'] = it

        def at(i):
            item = V(it.ty[1], it.t[i])
            eng.B.on_elem_read(eng, it.t, i, item)
            rv = eng.st.ghost.get('reversed_of', {}).get(it.t.get_id())
            if rv is not None:
                # reversed(xs)[i] == xs[len-1-i]
                j = z3.Length(rv.t) - 1 - i
                eng.assume(z3.Implies(z3.And(i >= 0, i < z3.Length(rv.t)), item.t == rv.t[j]))
                rs = eng.st.ghost.get('rev_snapshots', {}).get(it.t.get_id())
                if rs is not None:
                    d, what, nh = rs[1]
                    kt_ = eng.B.dict_key_at(eng, d, j)
                    if what == 'values':
                        eng.assume(z3.Implies(z3.And(i >= 0, i < z3.Length(rv.t)), item.t == z3.Select(T.dict_map(d), kt_)))
            snap = eng.st.ghost.get('snapshots', {}).get(it.t.get_id())
            if snap is not None:
                d, what, nh = snap
                keys, mp = T.dict_keys(d), T.dict_map(d)
                inr = z3.And(i >= 0, i < z3.Length(keys))
                kt_ = eng.B.dict_key_at(eng, d, i)
                kv, vv = V(d.ty[1], kt_), V(d.ty[2], z3.Select(mp, kt_))
                if what == 'values':
                    eng.assume(z3.Implies(inr, item.t == vv.t))
                else:
                    eng.assume(z3.Implies(inr, item.t == T.mk_tuple([kv, vv]).t))
                # keys of a dict are distinct: two positions hold the same key only if they are the same position
                from . import heapglue
                if eng.st.ghost.get('nhavoc', 0) == nh and not eng.st.ghost.get('loop_havoc_since', {}).get(it.t.get_id()):
                    heapglue.note_entry_read(eng, d, kv, vv, inr)
            return item
        return z3.Length(it.t), at, None
    if isinstance(it, V) and it.ty[0] == 'gen':
        items, after = eng.drain_gen(it, fr)
        fr.ghost['iter_seq'] = items
        return z3.Length(items.t), (lambda i: V(items.ty[1], items.t[i])), after
    if isinstance(it, PyObj) and it.kind == 'iter_unpack':
        fmt, data = it.payload
        from .builtins import calcsize, unpack_at
        size = calcsize(fmt)
        ln = z3.Length(data.t)
        eng.prove_internal('iter_unpack buffer length multiple of %d' % size, ln % size == 0, 'struct.error')

        def at(i):
            vals, _ = unpack_at(eng, fmt, data.t, i * size)
            return T.mk_tuple(vals)
        return ln / size, at, None
    if isinstance(it, PyObj) and it.kind == 'enumerate':
        n, at, after = iteration_model(eng, it.payload[0], fr)
        return n, (lambda i: T.mk_tuple([V(INT, i), at(i)])), after
    if isinstance(it, PyObj) and it.kind == 'zip':
        ms = [iteration_model(eng, x, fr) for x in it.payload]
        n = ms[0][0]
        for m in ms[1:]:
            n = z3.If(m[0] < n, m[0], n)
        return n, (lambda i: T.mk_tuple([m[1](i) for m in ms])), None
    raise Unsupported('iteration over %r' % (getattr(it, 'ty', it),))


def exec_for(eng, s, fr):
    from .engine import PathEnd, Unsupported, _Break, _Continue, PyObj
    it = eng.eval(s.iter, fr)
    # statically sized tuples are unrolled
    if isinstance(it, V) and it.ty[0] == 'tuple':
        try:
            for item in T.tuple_items(it):
                eng.assign(s.target, item, fr)
                try:
                    eng.exec_block(s.body, fr)
                except _Continue:
                    continue
        except _Break:
            return
        eng.exec_block(s.orelse, fr)
        return
    anchor = anchor_of(eng, s, fr)
    spec = loop_spec(eng, anchor, fr)
    if spec is None:
        raise Unsupported('loop %s has no invariant in the contract' % anchor)
    live = None
    if isinstance(it, V) and it.ty[0] == 'list' and isinstance(s.iter, ast.Attribute) and not eng.pure:
        # `for x in obj.field:` walks the LIVE list object by index; the executor iterates the value the field had at the
        # loop head.  The two agree if the list is unchanged whenever the loop goes round again (a body that changes it and
        # then leaves the loop is fine): an applicability condition of the loop rule, proved at the end of every iteration -
        # when it cannot be proved the unit is UNDECIDED (the model does not apply), never a violation
        base = eng.eval(s.iter.value, fr)
        if isinstance(base, V) and (base.ty[0] == 'ref' or (base.ty[0] == 'opt' and base.ty[1][0] == 'ref')):
            live = it
    n, elem_at, after_exit = iteration_model(eng, it, fr)
    n = z3.simplify(n)
    idxname = spec.index or ('_i_' + anchor)

    def body_guard(idx):
        return idx < n

    def bind(idx):
        eng.assign(s.target, elem_at(idx), fr)

    run_loop(eng, s, fr, anchor, spec, idxname, body_guard, bind, n, after_exit, live=live)


def exec_while(eng, s, fr):
    from .engine import Unsupported
    anchor = anchor_of(eng, s, fr)
    spec = loop_spec(eng, anchor, fr)
    if spec is None:
        raise Unsupported('loop %s has no invariant in the contract' % anchor)
    idxname = spec.index or ('_i_' + anchor)
    run_loop(eng, s, fr, anchor, spec, idxname, None, None, None, None)


def run_loop(eng, s, fr, anchor, spec, idxname, body_guard, bind, n, after_exit, live=None):
    from .engine import PathEnd, Unsupported, _Break, _Continue, PyRaise
    is_for = body_guard is not None
    uname = eng.unit_short
    # a loop whose body makes excursions: the class's rely/guarantee relation to the unit's entry state is carried
    # across iterations as an (automatically added) loop invariant
    from . import heapglue
    if heapglue.writes_heap(s.body) and heapglue.simple_self_writes(eng, s.body, fr) is None:
        selfv = fr.lookup('self')
        if isinstance(selfv, V) and selfv.ty[0] == 'ref' and selfv.ty[1] in heapglue.KLASSES:
            extra = [e for e in heapglue.KLASSES[selfv.ty[1]].rely.values() if e not in spec.inv]
            if extra:
                from .contracts import LoopSpec
                spec = LoopSpec(index=spec.index, inv=list(spec.inv) + extra, decreases=spec.decreases,
                                modifies=spec.modifies, elem=spec.elem, **spec.extra)
    pre = dict(fr.vars)
    pre['__yielded__'] = eng.st.yielded
    fr.loop_pre.append(pre)
    saved_idx = fr.ghost.get(idxname)
    try:
        fr.ghost[idxname] = vint(0)
        for k, inv in enumerate(spec.inv):
            eng.prove('inv.init#%s.%d' % (anchor, k + 1), eng.pure_bool(inv, fr), kind='inv.init',
                      props=eng.contract.clause_props(inv) if False else None)
        # havoc everything the body may change
        mods = assigned_names(s.body) | (assigned_names([s]) if is_for else set())
        if spec.modifies:
            mods |= set(spec.modifies)
        for name in sorted(mods):
            cur = fr.lookup(name)
            if isinstance(cur, V):
                if cur.t is None:
                    # an untyped empty literal that the loop mutates: its element type must come from the sidecar
                    raise Unsupported('loop %s mutates %s, an empty literal without a declared type (contract `locals`)'
                                      % (anchor, name))
                owner = fr
                while owner is not None and name not in owner.vars:
                    owner = owner.parent
                (owner or fr).vars[name] = eng.fresh(cur.ty, name)
        if eng.st.yielded is not None and has_yield(s.body):
            eng.st.yielded = eng.fresh(eng.st.yielded.ty, 'yielded')
        inv_held = eng.havoc_heap_for_loop(s, fr, spec) or []
        # a heap frame declared in the sidecar is CHECKED: at the end of an iteration every field outside it is unchanged
        frame_decl = spec.extra.get('heap_modifies')
        head_heap = dict(eng.st.heap) if frame_decl is not None else None
        idx = eng.fresh(INT, idxname)
        fr.ghost[idxname] = idx
        eng.assume(idx.t >= 0)
        if is_for:
            eng.assume(z3.Or(idx.t <= n, idx.t == 0))
        for inv in spec.inv:
            eng.assume(eng.pure_bool(inv, fr))
        if live is not None:
            eng.assume(eng.eval(s.iter, fr).t == live.t)        # induction hypothesis of the applicability condition
        if is_for:
            enter = eng.choose([body_guard(idx.t), z3.Not(body_guard(idx.t))]) == 0
        else:
            c = eng.truth(eng.eval(s.test, fr))
            enter = eng.branch(c)
        if enter:
            # ghost names of the iteration: expressions evaluated as the iteration starts (e.g. where a cursor stood)
            if is_for:
                bind(idx.t)
                if spec.extra.get('snapshot_present'):
                    snapshot_present_rule(eng, s, fr, idx.t)
            for g_, e_ in (spec.extra.get('ghosts') or {}).items():
                fr.ghost[g_] = eng.pure_expr(e_, fr)
            d0 = eng.pure_expr(spec.decreases, fr) if spec.decreases else None
            try:
                eng.exec_block(s.body, fr)
            except _Continue:
                pass
            except _Break:
                return
            # clauses anchored at the end of an iteration (the trace holds exactly this iteration's events on this path)
            saved_cf = getattr(eng, 'cur_frame', None)
            eng.cur_frame = fr
            try:
                eng.B.checkpoint(eng, 'iteration-end:%s' % anchor)
            finally:
                eng.cur_frame = saved_cf
            if is_for and eng.st.ghost.get('live_iter') and eng.st.ghost.get('live_iter_mutated'):
                # CPython: changing a dict's size while iterating it raises RuntimeError at the next step
                eng.prove('unexpected-exception.RuntimeError:dict-changed-size-during-iteration#%s' % anchor,
                          idx.t + 1 >= n, kind='unexpected-exception')
            fr.ghost[idxname] = V(INT, idx.t + 1)
            for o_ in inv_held:
                from . import heap as H_
                H_.assert_invariant(eng, o_, 'loop-back#%s' % anchor, exempt=set(spec.extra.get('objinv_exempt', [])))
            if live is not None:
                eng.prove('applicability#%s.live-list-unchanged-when-the-loop-continues' % anchor,
                          eng.eval(s.iter, fr).t == live.t, kind='applicability', assume_after=False)
            if head_heap is not None:
                for key_ in sorted(eng.st.heap):
                    cname, f_ = key_
                    if ('%s.%s' % (cname, f_)) in frame_decl or (cname + '.*') in frame_decl or key_ not in head_heap:
                        continue
                    if eng.st.heap[key_] is not head_heap[key_] and not eng.st.heap[key_].eq(head_heap[key_]):
                        eng.prove('inv.keep#%s.frame:%s.%s-unchanged' % (anchor, cname, f_),
                                  eng.st.heap[key_] == head_heap[key_], kind='inv.keep')
            for k, inv in enumerate(spec.inv):
                eng.prove('inv.keep#%s.%d' % (anchor, k + 1), eng.pure_bool(inv, fr), kind='inv.keep')
            if d0 is not None:
                d1 = eng.pure_expr(spec.decreases, fr)
                eng.prove('dec#%s' % anchor, z3.And(d0.t >= 0, d1.t < d0.t), kind='dec')
            raise PathEnd()
        # exit
        if is_for:
            eng.assume(z3.If(n >= 0, idx.t == n, idx.t == 0))
        if after_exit is not None:
            after_exit()
        eng.exec_block(s.orelse, fr)
    finally:
        fr.loop_pre.pop()
        # the index stays readable after the loop (post-conditions may mention it) unless shadowed
        if saved_idx is not None and False:
            fr.ghost[idxname] = saved_idx


def snapshot_present_rule(eng, s, fr, idx_t):
    """TRUSTED loop rule (listed among the assumptions).  `for x in list(T.values())` over a table snapshot, where the
    body makes no call other than deleting the current element's own key (checked syntactically below): keys are
    distinct, earlier iterations removed only their own keys, nothing else ran, hence the current element is still
    in the table under its own key when its iteration starts."""
    from .engine import Unsupported
    it = fr.ghost.get('iter_seq')
    snap = eng.st.ghost.get('snapshots', {}).get(it.t.get_id()) if it is not None else None
    if snap is None and fr.ghost.get('iter_live_dict') is not None and eng.st.ghost.get('live_iter'):
        # iterating the live table itself: same reasoning, the element is in the table under its own key
        d0 = fr.ghost['iter_live_dict']
        from . import heapglue
        prov = heapglue.table_prov(eng, d0)
        ref, field = prov
        cur = heapglue.heap_read(eng, ref, field)
        k0 = eng.B.dict_key_at(eng, d0, idx_t)
        elem = z3.Select(T.dict_map(d0), k0)
        eng.assume(z3.Select(T.dict_has(cur), k0))
        eng.assume(z3.Select(T.dict_map(cur), k0) == elem)
        heapglue.note_entry_read(eng, cur, V(cur.ty[1], k0), V(cur.ty[2], elem), z3.BoolVal(True))
        return
    if snap is None:
        raise Unsupported('snapshot_present: the loop does not iterate a table snapshot')
    for st_ in s.body:
        for n in ast.walk(st_):
            if isinstance(n, ast.Call) and not eng.B.is_logging_call(n):
                raise Unsupported('snapshot_present: the loop body makes a call (%s)' % ast.dump(n.func)[:60])
    d0, what, nh = snap
    owner = None
    from . import heapglue
    prov = heapglue.table_prov(eng, d0)
    if prov is None:
        raise Unsupported('snapshot_present: snapshot is not of a declared table')
    ref, field = prov
    cur = heapglue.heap_read(eng, ref, field)
    k0 = eng.B.dict_key_at(eng, d0, idx_t)
    elem = z3.Select(T.dict_map(d0), k0)
    eng.assume(z3.Select(T.dict_has(cur), k0))
    eng.assume(z3.Select(T.dict_map(cur), k0) == elem)
    heapglue.note_entry_read(eng, cur, V(cur.ty[1], k0), V(cur.ty[2], elem), z3.BoolVal(True))
