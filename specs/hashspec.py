"""org.apache.kafka.common.utils.Utils.murmur2 (Kafka Java client), transcribed from the Java source into arithmetic on
the unsigned representatives of Java's 32-bit ints (not from afkak):

    int h = seed ^ length;                       h in [0, 2^32): the unsigned reading of the int
    for each aligned 4-byte group (little endian) k:
        k *= m; k ^= k >>> r; k *= m;            32-bit wrap-around = arithmetic mod 2^32; >>> on the unsigned reading is >>
        h *= m; h ^= k;
    switch (length % 4): case 3: h ^= (data[(length & ~3) + 2] & 0xff) << 16;  (falls through)
                         case 2: h ^= (data[(length & ~3) + 1] & 0xff) << 8;
                         case 1: h ^= data[length & ~3] & 0xff; h *= m;
    h ^= h >>> 13; h *= m; h ^= h >>> 15;

The Java function returns the signed reading; afkak returns the unsigned one and masks with 0x7fffffff before use, as
the Java partitioner does (toPositive), so the two agree on the selected partition.
"""
from .prims import *  # noqa



def rec(f=None, **kw):
    if f is None:
        return lambda g: g
    return f


MM_M = 1540483477          # 0x5bd1e995


def mul32(a: int, b: int) -> int:
    return (a * b) % 4294967296


def le32(data: bytes, p: int) -> int:
    return data[p] + data[p + 1] * 256 + data[p + 2] * 65536 + data[p + 3] * 16777216


def mm_mixk(k: int) -> int:
    return mul32(mul32(k, MM_M) ^ (mul32(k, MM_M) >> 24), MM_M)


def mm_mixh(h: int, k: int) -> int:
    return mul32(h, MM_M) ^ k


@rec(fuel=0)
def mm_loop(data: bytes, seed: int, i: int) -> int:
    """h after the first i aligned 4-byte groups"""
    if i <= 0:
        return seed ^ len(data)
    return mm_mixh(mm_loop(data, seed, i - 1), mm_mixk(le32(data, 4 * (i - 1))))


def mm_tail3(data: bytes, h: int) -> int:
    return (h ^ (data[len(data) - len(data) % 4 + 2] * 65536)) if len(data) % 4 == 3 else h


def mm_tail2(data: bytes, h: int) -> int:
    return (mm_tail3(data, h) ^ (data[len(data) - len(data) % 4 + 1] * 256)) if len(data) % 4 >= 2 else mm_tail3(data, h)


def mm_tail(data: bytes, h: int) -> int:
    return mul32(mm_tail2(data, h) ^ data[len(data) - len(data) % 4], MM_M) if len(data) % 4 >= 1 else mm_tail2(data, h)


def mm_final(h: int) -> int:
    return mul32(h ^ (h >> 13), MM_M) ^ (mul32(h ^ (h >> 13), MM_M) >> 15)


def murmur2_java(data: bytes, seed: int) -> int:
    return mm_final(mm_tail(data, mm_loop(data, seed, len(data) // 4)))


def to_positive(h: int) -> int:
    """Utils.toPositive: h & 0x7fffffff"""
    return h % 2147483648
