"""Bounded scenario stand-ins (NOT proofs).  Each function drives the REAL afkak objects from the repository tree on
sys.path through generated event sequences (fake reactor = twisted Clock, fake collaborators) and checks oracles taken
from the property statements after every step.  Used for the units the symbolic executor does not reach; every use is
labelled `bounded` in the evidence with its bound (number of scenarios, maximum length) and never counted as discharged.

A scenario function has the signature f(rnd, n) -> dict(tried=int, distinct=int, hit=None | dict(scenario=..., failed=[...]))
"""
import itertools
import struct

from twisted.internet import defer, task
from twisted.python.failure import Failure
import logging
logging.disable(logging.CRITICAL)


class Hit(Exception):
    RAISED = []         # every Hit constructed during the current run: one raised inside a callback is caught by the
                        # library under test (maybeDeferred, Deferred chains) and would otherwise be lost

    def __init__(self, what, detail=''):
        Exception.__init__(self, what)
        self.what = what
        self.detail = detail
        Hit.RAISED.append(self)


PROP = None     # property whose check is running: an oracle of another property that fires does not end the search


def _mine(hits):
    """first recorded Hit that concerns the property under check: its tags, or None"""
    for h in hits:
        props, tag = h.what.split(':', 1)          # `what` may name several properties: "C01+C07:tag"
        mine = [q + ':' + tag for q in props.split('+') if PROP is None or q == PROP]
        if mine:
            return h, mine
    return None, None


def _run(rnd, n, one):
    tried = 0
    seen = set()
    for i in range(n):
        script = []
        del Hit.RAISED[:]
        try:
            one(rnd, script)
        except Hit:
            pass
        h, mine = _mine(list(Hit.RAISED))
        if mine:
            return dict(tried=tried + 1, distinct=len(seen) + 1,
                        hit=dict(inputs={'scenario': script}, run=dict(failed=mine, detail=str(h.detail)[:3000], outcome='violation')))
        tried += 1
        seen.add(repr(script))
    return dict(tried=tried, distinct=len(seen), hit=None)


class UnhandledErrors:
    """collects errors Twisted reports as unhandled (a Deferred garbage-collected with a failure nobody consumed, or an
    exception raised inside a callback chain and never trapped)"""

    def __init__(self):
        self.seen = []

    def __enter__(self):
        from twisted.python import log as tlog
        self._obs = lambda ev: self.seen.append(dict(ev)) if ev.get('isError') else None
        tlog.addObserver(self._obs)
        return self

    def __exit__(self, *a):
        import gc
        from twisted.python import log as tlog
        gc.collect()
        tlog.removeObserver(self._obs)

    def bad(self, ignore=()):
        out = []
        for ev in self.seen:
            f = ev.get('failure') or ev.get('log_failure')
            if f is None and 'Unhandled error in Deferred' in str(ev.get('log_format') or ev.get('message')):
                continue             # header line; the failure itself is the next event
            name = f.type.__name__ if f is not None else 'error'
            if name not in ignore:
                out.append((name, (str(f.value)[:120] + ' @ ' + ' <- '.join('%s:%d' % (fr[0], fr[2]) for fr in reversed(f.frames[-3:]))) if f is not None else (str(ev.get('why') or ev.get('log_format') or ev.get('message'))[:200] + ' ' + str(ev.get('log_failure') or ev.get('debugInfo') or '')[:600])))
        return out


class Enumerator:
    """stands in for random.Random in a scenario: every `choice` is a recorded choice point, and `_run_exhaustive`
    re-runs the scenario over all choice sequences (depth-first, odometer order) - a bounded exhaustive search"""

    def __init__(self, prefix):
        self.prefix = prefix
        self.trail = []          # (chosen index, arity)

    def choice(self, seq):
        seq = list(seq)
        k = len(self.trail)
        i = self.prefix[k] if k < len(self.prefix) else 0
        self.trail.append((i, len(seq)))
        return seq[i]


def _run_exhaustive(one, limit):
    tried = 0
    prefix = []
    exhausted = False
    while tried < limit:
        e = Enumerator(prefix)
        script = []
        del Hit.RAISED[:]
        try:
            one(e, script)
        except Hit:
            pass
        h, mine = _mine(list(Hit.RAISED))
        if mine:
            return dict(tried=tried + 1, distinct=tried + 1, exhaustive=False,
                        hit=dict(inputs={'scenario': script}, run=dict(failed=mine, detail=str(h.detail)[:3000], outcome='violation')))
        tried += 1
        t = e.trail
        while t and t[-1][0] + 1 >= t[-1][1]:
            t.pop()
        if not t:
            exhausted = True
            break
        prefix = [i for i, _ in t[:-1]] + [t[-1][0] + 1]
    return dict(tried=tried, distinct=tried, hit=None, exhaustive=exhausted)


# ---------------------------------------------------------------------------------------------- consumer (C02 C03 C13)

class FakeConsumerClient:
    """KafkaClient as the Consumer sees it: every request returns a Deferred the scenario resolves later"""

    def __init__(self, clock, log):
        self.reactor = clock
        self.log = log                       # list of offsets present in the partition log
        self.pending = []                    # (kind, deferred, info)
        self.commits_sent = []
        self.committed = None
        self.fetches = []

    def _mk(self, kind, info):
        d = defer.Deferred()
        self.pending.append((kind, d, info))
        return d

    def send_fetch_request(self, payloads, **kw):
        self.fetches.append(payloads[0].offset)
        return self._mk('fetch', payloads[0])

    def send_offset_request(self, payloads, **kw):
        return self._mk('offset', payloads[0])

    def send_offset_fetch_request(self, group, payloads, **kw):
        return self._mk('offset_fetch', payloads[0])

    def send_offset_commit_request(self, group, payloads, **kw):
        self.commits_sent.append(payloads[0].offset)
        c = getattr(self, 'consumer', None)
        if c is not None and payloads[0].offset != c._last_processed_offset:
            # C03: "the value sent is the last-processed offset at the moment the commit is issued" (first attempts and retries alike)
            raise Hit('C03:commit-value-is-not-the-last-processed-offset', (payloads[0].offset, c._last_processed_offset))
        return self._mk('commit', payloads[0])


def consumer_scenario(rnd, script, group=True, gaps=False):
    from afkak import Consumer
    from afkak.common import (FetchResponse, OffsetAndMessage, Message, OffsetCommitResponse, OffsetFetchResponse,
                              OFFSET_COMMITTED, UnknownError, RequestTimedOutError)
    clock = task.Clock()
    log = []
    off = 0
    for _ in range(12):
        log.append(off)
        off += rnd.choice([1, 1, 1, 2, 4]) if gaps else 1
    client = FakeConsumerClient(clock, log)
    invoked = []             # blocks handed to the processor
    proc_pending = []
    state = dict(stopped_at=None, in_processor=0, ok_upto=-1, failed=False, processed_ok=[])

    def processor(consumer, block):
        offs = [m.offset for m in block]
        if state['stopped_at'] is not None:
            raise Hit('C13:processor-invoked-after-stop', offs)
        if state['in_processor']:
            raise Hit('C02:processor-invoked-while-previous-result-pending', offs)
        if invoked and offs[0] <= invoked[-1][-1]:
            raise Hit('C02:delivery-not-strictly-increasing', (invoked[-1], offs))
        for a, b in zip(offs, offs[1:]):
            if b <= a:
                raise Hit('C02:delivery-not-strictly-increasing', offs)
        invoked.append(offs)
        d = defer.Deferred()
        state['in_processor'] += 1
        proc_pending.append((d, offs))
        if rnd.random() < 0.3:
            # a Deferred that HAS fired but whose result is still pending: its chain is paused on `d`
            outer = defer.succeed(None)
            outer.addCallback(lambda _: d)
            return outer
        return d

    c = Consumer(client, 't', 0, processor, consumer_group='g' if group else None,
                 auto_commit_every_n=rnd.choice([1, 2, 0]) if group else None,
                 auto_commit_every_ms=rnd.choice([0, 0, 1000]) if group else None,     # sometimes a time-triggered auto-commit too
                 request_retry_init_delay=0.5, request_retry_max_delay=2.0)
    client.consumer = c
    start_results = []
    commit_waits = []            # Deferreds returned by commit(): none may be left pending by stop()
    start_offset = 0
    sd = c.start(start_offset)
    sd.addBoth(start_results.append)
    shutdown_results = []
    script.append(('start', start_offset))

    def check():
        if len(start_results) > 1:
            raise Hit('C13:start-deferred-fired-twice', start_results)
        for off_ in client.commits_sent:
            ok = state['processed_ok']
            if off_ not in ok:
                raise Hit('C03:committed-offset-not-successfully-processed', (off_, ok))
        if state['failed']:
            pass
        if state['stopped_at'] is not None:
            if clock.getDelayedCalls():
                raise Hit('C13:timer-left-after-stop', [str(dc) for dc in clock.getDelayedCalls()])
            if c._start_d is None and any(not d_.called for d_ in commit_waits):
                raise Hit('C13:commit-waiter-left-pending-by-stop', len([1 for d_ in commit_waits if not d_.called]))

    for step in range(rnd.choice([4, 6, 8, 10, 12])):
        choices = ['advance']
        if client.pending:
            choices += ['reply', 'reply', 'fail_reply']
        if any(k == 'commit' and not d_.called for k, d_, _ in client.pending):
            choices += ['fail_commit'] * 3
        if proc_pending:
            choices += ['proc_ok', 'proc_ok', 'proc_fail']
        if state['stopped_at'] is None:
            choices += ['stop', 'shutdown'] if step > 1 else []
            if group:
                choices += ['commit']
        elif c._start_d is None and not state.get('restarted'):
            choices += ['restart', 'restart']          # C13: "A stopped consumer can be started again"
        ev = rnd.choice(choices)
        script.append(ev)
        try:
            if ev == 'advance':
                clock.advance(rnd.choice([0, 0.5, 2.5]))
            elif ev in ('reply', 'fail_reply'):
                kind, d, info = client.pending.pop(0)
                if d.called:
                    continue
                if ev == 'fail_reply':
                    d.errback(Failure(RequestTimedOutError('x')))
                elif kind == 'fetch':
                    avail = [o for o in log if o >= info.offset][:rnd.choice([1, 2, 3, 5])]
                    msgs = [OffsetAndMessage(o, Message(0, 0, None, b'm%d' % o)) for o in avail]
                    d.callback([FetchResponse('t', 0, 0, log[-1] + 1, iter(msgs))])
                elif kind == 'commit':
                    client.committed = info.offset
                    d.callback([OffsetCommitResponse('t', 0, 0)])
                elif kind == 'offset_fetch':
                    d.callback([OffsetFetchResponse('t', 0, -1, b'', 0)])
                else:
                    d.callback([])
            elif ev == 'fail_commit':
                # the commit reply overtakes whatever else is pending and is a retriable error: the retry timer is armed
                i = [j for j, (k, d_, _) in enumerate(client.pending) if k == 'commit' and not d_.called][0]
                kind, d, info = client.pending.pop(i)
                if not d.called:
                    d.errback(Failure(RequestTimedOutError('commit timed out')))
            elif ev in ('proc_ok', 'proc_fail'):
                d, offs = proc_pending.pop(0)
                state['in_processor'] -= 1
                if d.called:
                    continue
                if ev == 'proc_ok':
                    if not state['failed']:
                        state['processed_ok'].extend(offs)
                    d.callback(None)
                else:
                    state['failed'] = True
                    d.errback(Failure(RuntimeError('processor failed')))
            elif ev == 'commit':
                cd = c.commit()
                cd.addErrback(lambda f: None)
                commit_waits.append(cd)
            elif ev == 'restart':
                # a new run of the same consumer object: everything of the earlier run was cancelled by stop()
                state['restarted'] = True
                state['stopped_at'] = None
                state['in_processor'] = 0
                del proc_pending[:]
                del invoked[:]
                del start_results[:]
                del shutdown_results[:]
                nxt = (state['processed_ok'][-1] + 1) if state['processed_ok'] else 0
                state['failed'] = False
                c.start(nxt).addBoth(start_results.append)
            elif ev == 'stop':
                if c._start_d is not None:
                    c.stop()
                    state['stopped_at'] = step
            elif ev == 'shutdown':
                if c._start_d is not None and not c._shutdown_d:
                    sh = c.shutdown()
                    sh.addBoth(shutdown_results.append)
        except Hit:
            raise
        except Exception as e:
            raise Hit('C13:unexpected-exception-%s' % type(e).__name__, '%s in %s' % (e, ev))
        if c._start_d is None and state['stopped_at'] is None:
            state['stopped_at'] = step
        for r in shutdown_results:
            if not isinstance(r, Failure) and group and c._last_processed_offset is not None \
                    and c._last_committed_offset != c._last_processed_offset:
                raise Hit('C13:shutdown-succeeded-with-uncommitted-progress',
                          (c._last_committed_offset, c._last_processed_offset))
        check()
    for r in start_results:
        if isinstance(r, Failure):
            r.trap(Exception)


def scenario_consumer(rnd, n):
    def one(r, script):
        consumer_scenario(r, script, group=r.random() < 0.7, gaps=r.random() < 0.5)
    return _run(rnd, n, one)


# ---------------------------------------------------------------------------------------------- client (C01 C07 C20 C08)

def scenario_broker_aware(rnd, n):
    """_send_broker_aware_request: every payload goes to the broker the metadata names as leader of its partition (or to
    the group's coordinator), one request per broker carrying exactly that broker's payloads; responses in payload order;
    failed brokers' payloads all accounted for (any acks); brokers answer in any order"""
    from unittest.mock import Mock
    from afkak import KafkaClient
    from afkak.common import (BrokerMetadata, ProduceRequest, ProduceResponse, TopicAndPartition, FailedPayloadsError,
                              LeaderUnavailableError, CoordinatorNotAvailable)

    def one(r, script):
        clock = task.Clock()
        client = KafkaClient(hosts='h:1', reactor=clock, enable_protocol_version_discovery=False)
        nb = r.choice([1, 2, 3])
        brokers = [BrokerMetadata(i + 1, 'b%d' % i, 9092) for i in range(nb)]
        parts = [('t%d' % r.choice([1, 2]), p) for p in range(r.choice([1, 2, 3, 4]))]
        parts = list(dict.fromkeys(parts))
        r.shuffle(parts)
        group = 'g' if r.random() < 0.25 else None
        leaderless = None
        for (t, p) in parts:
            client.topics_to_brokers[TopicAndPartition(t, p)] = r.choice(brokers)
        if group is not None:
            coord = r.choice(brokers + [None])
            client._group_to_coordinator[group] = coord
            client.load_coordinator_for_group = lambda g: defer.succeed(None)
        elif r.random() < 0.15:
            leaderless = r.choice(parts)
            client.topics_to_brokers[TopicAndPartition(*leaderless)] = None
            client.load_metadata_for_topics = lambda *t: defer.succeed(None)
        acks = r.choice([0, 1])
        fails = {b.node_id for b in brokers if r.random() < 0.4}
        script.extend([('acks', acks), ('parts', parts), ('fails', sorted(fails)), ('group', group), ('leaderless', leaderless)])
        requests = []                                # (node_id, payloads carried, deferred, expectResponse)
        carried = {}

        def encoder(client_id, correlation_id, payloads):
            tok = b'req%d' % correlation_id
            carried[tok] = list(payloads)
            return tok

        def mrtb(broker, requestId, request, expectResponse=True, **kw):
            d = defer.Deferred()
            requests.append((broker.node_id, carried[request], d, expectResponse))
            return d

        client._make_request_to_broker = mrtb
        client._get_brokerclient = lambda node_id: Mock(node_id=node_id)
        payloads = [ProduceRequest(t, p, []) for (t, p) in parts]

        leaders0 = dict(client.topics_to_brokers)      # as the metadata stood when the request was made
        coord0 = client._group_to_coordinator.get(group)

        def leader_of(pl):
            if group is not None:
                return coord0
            return leaders0[TopicAndPartition(pl.topic, pl.partition)]

        want_by_broker = {}
        if not (group is not None and coord is None) and leaderless is None:
            for pl in payloads:
                want_by_broker.setdefault(leader_of(pl).node_id, []).append(pl)

        def decode(resp):
            return [ProduceResponse(pl.topic, pl.partition, 0, 1) for pl in want_by_broker[resp[1]]]

        out = []
        d = client._send_broker_aware_request(payloads, encoder, decode if acks else None, consumer_group=group)
        d.addBoth(out.append)
        if leaderless is not None or (group is not None and coord is None):
            exp = LeaderUnavailableError if leaderless is not None else CoordinatorNotAvailable
            if requests:
                raise Hit('C07:request-sent-although-a-payload-has-no-leader', [q[0] for q in requests])
            if not out or not isinstance(out[0], Failure) or not out[0].check(exp):
                raise Hit('C07:no-leader-not-reported', repr(out)[:200])
            return
        # routing: one request per responsible broker, carrying exactly that broker's payloads
        got_by_broker = {}
        for nid, pls, _, _ in requests:
            if nid in got_by_broker:
                raise Hit('C07:more-than-one-request-per-broker', nid)
            got_by_broker[nid] = pls
        norm = lambda m: {k: sorted(map(repr, v)) for k, v in m.items()}      # exactly its payloads, in any order
        if norm(got_by_broker) != norm(want_by_broker):
            raise Hit('C07:payloads-not-routed-to-their-leader', (repr(got_by_broker)[:300], repr(want_by_broker)[:300]))
        if out:
            raise Hit('C07:completed-before-every-broker-answered', repr(out)[:100])
        order = list(requests)
        r.shuffle(order)
        for nid, pls, rd, expect in order:            # brokers answer in any order
            if out:
                raise Hit('C07:completed-before-every-broker-answered', repr(out)[:100])
            if expect != bool(acks):
                raise Hit('C01:response-expectation-does-not-follow-acks', (expect, acks))
            if nid in fails:
                rd.errback(Failure(RuntimeError('broker %d down' % nid)))
            else:
                rd.callback(('resp', nid) if expect else None)
        if not out:
            raise Hit('C07:request-did-not-complete')
        res = out[0]
        expected_failed = [pl for pl in payloads if leader_of(pl).node_id in fails]
        if expected_failed:
            if not isinstance(res, Failure) or not res.check(FailedPayloadsError):
                raise Hit('C07:failed-payloads-not-reported' if acks else 'C01+C07:acks0-send-reported-success-although-broker-failed',
                          repr(res)[:200])
            got_failed = [p for p, f in res.value.failed_payloads]
            # the routing the failed sends relied on must be gone, so that the next request re-resolves it (what else
            # is dropped along with it is not prescribed: afkak drops everything)
            stale = [(p.topic, p.partition) for p in expected_failed
                     if group is None and TopicAndPartition(p.topic, p.partition) in client.topics_to_brokers]
            if stale or (group is not None and client._group_to_coordinator.get(group) is not None):
                raise Hit('C08:failed-send-did-not-invalidate-cached-routing', stale)
            if sorted(map(repr, got_failed)) != sorted(map(repr, expected_failed)):
                raise Hit('C07:failed-payloads-do-not-account-for-every-payload', (got_failed, expected_failed))
            resps = res.value.responses
        else:
            if isinstance(res, Failure):
                raise Hit('C07:unexpected-failure', repr(res)[:200])
            resps = res
        if acks:
            want = [(pl.topic, pl.partition) for pl in payloads if leader_of(pl).node_id not in fails]
            if [(x.topic, x.partition) for x in resps] != want:
                raise Hit('C07:responses-not-in-payload-order', (resps, want))
    return _run(rnd, n, one)


def scenario_broker_unaware(rnd, n):
    """_send_broker_unaware_request / _send_bootstrap_request: a broker-agnostic request is tried on every known broker,
    connected ones first, then on every bootstrap host, before the caller sees KafkaUnavailableError; the first answer ends
    the search.  Exhaustive over 0..3 known brokers x connected/failing subsets x 1..2 bootstrap hosts x outcomes."""
    from unittest.mock import Mock
    from afkak import KafkaClient
    from afkak.common import BrokerMetadata, KafkaUnavailableError, RequestTimedOutError

    def one(r, script):
        clock = task.Clock()
        nh = r.choice([1, 2])
        client = KafkaClient(hosts=','.join('boot%d:9' % i for i in range(nh)), reactor=clock,
                             enable_protocol_version_discovery=False)
        nb = r.choice([0, 1, 2, 3])
        tried = []
        ok = {}
        conn = {}
        for i in range(1, nb + 1):
            client._brokers[i] = BrokerMetadata(i, 'b%d' % i, 9092)
            conn[i] = r.choice([True, False])
            ok[i] = r.choice([False, True])
            if conn[i] or r.choice([True, False]):
                client.clients[i] = Mock(node_id=i, host='b%d' % i, port=9092, connected=lambda c=conn[i]: c)
        boot_ok = {'boot%d' % i: r.choice(['refused', 'fails', 'answers']) for i in range(nh)}
        script.extend([('connected', conn), ('answers', ok), ('clients', sorted(client.clients)), ('bootstrap', boot_ok)])
        client._get_brokerclient = lambda nid: client.clients.get(nid) or Mock(node_id=nid, host='b%d' % nid, port=9092)

        def mrtb(broker, requestId, request, **kw):
            tried.append(('broker', broker.node_id))
            if ok[broker.node_id]:
                return defer.succeed(('resp', broker.node_id))
            return defer.fail(Failure(RequestTimedOutError('no answer from %d' % broker.node_id)))

        client._make_request_to_broker = mrtb

        class Proto:
            def __init__(self, host):
                self.host = host
                self.transport = Mock()

            def request(self, req):
                if boot_ok[self.host] == 'answers':
                    return defer.succeed(('resp', self.host))
                return defer.fail(Failure(RuntimeError('bootstrap request failed')))

        class EP:
            def __init__(self, reactor, host, port):
                self.host = host

            def connect(self, factory):
                tried.append(('bootstrap', self.host))
                if boot_ok[self.host] == 'refused':
                    return defer.fail(Failure(ConnectionRefusedError()))
                return defer.succeed(Proto(self.host))

        client._endpoint_factory = EP
        out = []
        d = client._send_broker_unaware_request(1, b'request')
        d.addBoth(out.append)
        if not out:
            raise Hit('C07:broker-agnostic-request-did-not-complete', tried)
        kinds = [k for k, _ in tried]
        if 'bootstrap' in kinds and 'broker' in kinds[kinds.index('bootstrap'):]:
            raise Hit('C07:bootstrap-host-tried-before-a-known-broker', tried)
        bs = [x for k, x in tried if k == 'broker']
        seen_unconnected = False
        for x in bs:
            if not conn[x]:
                seen_unconnected = True
            elif seen_unconnected:
                raise Hit('C07:unconnected-broker-tried-before-a-connected-one', tried)
        if len(set(tried)) != len(tried):
            raise Hit('C07:same-server-tried-twice', tried)
        winner = next((i for i in bs if ok[i]), None)
        res = out[0]
        if winner is not None:
            if res != ('resp', winner) or tried[-1] != ('broker', winner):
                raise Hit('C07:first-answer-does-not-end-the-search', (tried, repr(res)[:100]))
            return
        if set(bs) != set(client._brokers):
            raise Hit('C07:known-broker-not-tried-before-falling-back', (tried, sorted(client._brokers)))
        hs = [x for k, x in tried if k == 'bootstrap']
        bwin = next((h for h in hs if boot_ok[h] == 'answers'), None)
        if bwin is not None:
            if res != ('resp', bwin) or tried[-1] != ('bootstrap', bwin):
                raise Hit('C07:first-answer-does-not-end-the-search', (tried, repr(res)[:100]))
            return
        if set(hs) != set(boot_ok):
            raise Hit('C07:unavailable-reported-before-every-bootstrap-host-was-tried', (tried, sorted(boot_ok)))
        if not isinstance(res, Failure) or not res.check(KafkaUnavailableError):
            raise Hit('C07:exhausted-search-not-reported-as-unavailable', repr(res)[:200])
    return _run_exhaustive(one, 10 ** 6)


def client_leader(by_broker, pl):
    for nid, pls in by_broker.items():
        if pl in pls:
            return nid


def scenario_client_close(rnd, n):
    """close() fires only after every broker client (also those being closed by earlier metadata refreshes) has gone"""
    from unittest.mock import Mock
    from afkak import KafkaClient
    from afkak.common import BrokerMetadata, ClientError, ProduceRequest, TopicAndPartition

    class FakeBroker:
        def __init__(self, nid):
            self.node_id = nid
            self.closed_d = None
            self.host, self.port = 'h', 1

        def close(self):
            self.closed_d = defer.Deferred()
            return self.closed_d

        def updateMetadata(self, bm):
            pass

        def connected(self):
            return True

    def one(r, script):
        clock = task.Clock()
        client = KafkaClient(hosts='h:1', reactor=clock, enable_protocol_version_discovery=False)
        nb = r.choice(NB)
        fakes = {i: FakeBroker(i) for i in range(1, nb + 1)}
        for i, f in fakes.items():
            client._brokers[i] = BrokerMetadata(i, 'h', 1)
            client.clients[i] = f
        client.topic_partitions['t'] = [0]
        client.topic_errors['t'] = 0
        client.topics_to_brokers[TopicAndPartition('t', 0)] = client._brokers[1]
        client._group_to_coordinator['g'] = client._brokers[1]
        closing = []
        alive = set(fakes)
        result = []
        closed = False
        for s in range(DEPTH):
            opts = []
            if len(alive) > 1 and not closed:
                opts.append('refresh')
            if [f for f in closing if not f.closed_d.called]:
                opts.append('gone')
            if not closed:
                opts.append('close')
            if not opts:
                break
            ev = r.choice(opts)
            if ev == 'refresh':
                drop = r.choice(sorted(alive))
                alive.discard(drop)
                script.append(('refresh-drops', drop))
                client._update_brokers([BrokerMetadata(i, 'h', 1) for i in sorted(alive)], remove=True)
                closing.append(fakes[drop])
            elif ev == 'gone':
                f = r.choice([f for f in closing if not f.closed_d.called])
                script.append(('connection-gone', f.node_id))
                f.closed_d.callback(None)
            else:
                script.append('close')
                closed = True
                d = client.close()
                d.addBoth(result.append)
                closing.extend(fakes[i] for i in sorted(alive))
            if result:
                pending = [f.node_id for f in closing if f.closed_d is not None and not f.closed_d.called]
                if pending:
                    raise Hit('C20:close-deferred-fired-before-last-connection-gone', pending)
        if closed:
            for f in closing:
                if f.closed_d is not None and not f.closed_d.called:
                    f.closed_d.callback(None)
            if len(result) != 1:
                raise Hit('C20:close-deferred-did-not-fire-exactly-once', len(result))
            # after close: cached metadata is gone, every new operation fails, no connection is attempted
            if client.topics_to_brokers or client.topic_partitions or client.topic_errors or client._group_to_coordinator:
                raise Hit('C20:cached-metadata-not-cleared-by-close')
            attempts = []
            client._endpoint_factory = lambda *a, **kw: attempts.append(a) or Mock()
            for what, op in (('get-brokerclient', lambda: client._get_brokerclient(1)),
                             ('broker-agnostic-request', lambda: client._send_broker_unaware_request(7, b'r')),
                             ('load-metadata', lambda: client.load_metadata_for_topics('t')),
                             ('produce', lambda: client.send_produce_request([ProduceRequest('t', 0, [])]))):
                got = []
                try:
                    rv = op()
                except ClientError:
                    continue
                except Exception as e:
                    raise Hit('C20:unexpected-exception-%s' % type(e).__name__, what)
                if isinstance(rv, defer.Deferred):
                    rv.addBoth(got.append)
                    if got and isinstance(got[0], Failure):
                        continue
                raise Hit('C20:new-operation-accepted-after-close', (what, repr(got)[:100]))
            if attempts:
                raise Hit('C20:connection-attempted-after-close', len(attempts))
    # exhaustive over every event sequence (a run has at most 2*brokers events): 2..4 brokers on every change, 2..5 in the
    # thorough tier
    NB, DEPTH = ([2, 3, 4] if n <= 400 else [2, 3, 4, 5]), 12
    return _run_exhaustive(one, 10 ** 7)


def scenario_metadata_merge(rnd, n):
    """after each metadata response the view of the covered topics equals the response; other topics untouched"""
    from afkak import KafkaClient
    from afkak.common import BrokerMetadata, TopicMetadata, PartitionMetadata, TopicAndPartition

    class FakeBC:
        def __init__(self, meta):
            self.meta = meta
            self.closed = False
            self.node_id = meta.node_id

        def updateMetadata(self, meta):
            self.meta = meta

        host = property(lambda self: self.meta.host)
        port = property(lambda self: self.meta.port)

        def close(self):
            self.closed = True
            return defer.succeed(None)

        def connected(self):
            return True

    def one(r, script):
        clock = task.Clock()
        client = KafkaClient(hosts='h:1', reactor=clock, enable_protocol_version_discovery=False)
        model = {}
        known = {}
        for step in range(r.choice([2, 3, 4])):
            ids = r.sample([1, 2, 3, 4], r.choice([0, 1, 2, 3]) if step else r.choice([1, 2, 3]))
            gen = (r.choice([0, 1]), r.choice([0, 1]))       # host and port change independently
            brokers = {i: BrokerMetadata(i, 'h%d-%d' % (i, gen[0]), 9000 + i + 10 * gen[1]) for i in ids} or \
                {1: BrokerMetadata(1, 'h1-%d' % gen[0], 9001 + 10 * gen[1])}
            if not ids:
                brokers_for_call = {}
            else:
                brokers_for_call = brokers
            full = r.choice([True, False])
            # broker clients exist for some known brokers (as after requests were made to them)
            for i, bm in list(client._brokers.items()):
                if i not in client.clients and r.random() < 0.7:
                    client.clients[i] = FakeBC(bm)
            before_clients = dict(client.clients)
            script.append(('brokers', sorted(brokers_for_call), 'full' if full else 'partial', 'gen', gen))
            topics = {}
            for t in r.sample(['a', 'b', 'c'], r.choice([1, 2])):
                nparts = r.choice([0, 1, 2, 3])
                err = 0 if nparts else r.choice([3, 5])
                parts = {p: PartitionMetadata(t, p, 0, r.choice(list(brokers_for_call) + [-1]), (1,), (1,)) for p in
                         r.sample(range(5), nparts)}
                topics[t] = TopicMetadata(t, err, parts)
            script.append(('merge', {t: (tm.topic_error_code, {p: pm.leader for p, pm in tm.partition_metadata.items()})
                                     for t, tm in topics.items()}))
            client._merge_topic_metadata(brokers_for_call, topics, fetched_all_topics=full)
            # broker addresses equal what the response said; clients of brokers missing from a full refresh are closed
            known.update(brokers_for_call)
            for i, bm in known.items():
                if client._brokers.get(i) != bm:
                    raise Hit('C08:broker-address-differs-from-response', (i, client._brokers.get(i), bm))
            for i, bc in before_clients.items():
                if i in brokers_for_call:
                    if bc.meta != brokers_for_call[i]:
                        raise Hit('C07+C08:connected-broker-client-not-told-the-new-address', (i, bc.meta, brokers_for_call[i]))
                    if bc.closed or client.clients.get(i) is not bc:
                        raise Hit('C08:client-of-a-listed-broker-closed', i)
                elif full and brokers_for_call:
                    if not bc.closed or i in client.clients:
                        raise Hit('C08:connection-to-broker-missing-from-full-refresh-not-closed', i)
                elif full:
                    pass        # a full refresh naming no broker at all: the statement does not say (afkak keeps them)
                elif bc.closed or client.clients.get(i) is not bc:
                    raise Hit('C08:broker-client-closed-by-a-partial-refresh', i)
            for t, tm in topics.items():
                model[t] = (tm.topic_error_code, {p: (brokers_for_call[pm.leader] if pm.leader != -1 else None)
                                                  for p, pm in tm.partition_metadata.items()})
            for t, (err, parts) in model.items():
                if client.topic_errors.get(t) != err:
                    raise Hit('C08:topic-error-differs-from-response', (t, client.topic_errors.get(t), err))
                got_parts = client.topic_partitions.get(t)
                if parts:
                    if got_parts != sorted(parts):
                        raise Hit('C08:partitions-differ-from-response', (t, got_parts, sorted(parts)))
                elif got_parts:
                    raise Hit('C08:stale-partitions-kept-for-topic-without-partitions', (t, got_parts))
                for (tt, pp), b in list(client.topics_to_brokers.items()):
                    if tt == t and pp not in parts:
                        raise Hit('C08:stale-leader-kept-for-vanished-partition', (tt, pp))
                for p, b in parts.items():
                    if client.topics_to_brokers.get(TopicAndPartition(t, p)) != b:
                        raise Hit('C08:leader-differs-from-response', (t, p))
    return _run(rnd, n, one)


def scenario_handle_responses(rnd, n):
    """_handle_responses: a not-leader / unknown-partition answer invalidates exactly that topic's cached routing, a
    coordinator error the group's coordinator; other answers leave the cache alone.  Exhaustive over error codes x
    fail_on_error x 1..2 responses."""
    from afkak import KafkaClient
    from afkak.common import (BrokerMetadata, TopicAndPartition, ProduceResponse, BrokerResponseError)

    def one(r, script):
        clock = task.Clock()
        client = KafkaClient(hosts='h:1', reactor=clock, enable_protocol_version_discovery=False)
        b = BrokerMetadata(1, 'h', 1)
        for t in ('a', 'b'):
            client.topic_partitions[t] = [0, 1]
            client.topic_errors[t] = 0
            for p in (0, 1):
                client.topics_to_brokers[TopicAndPartition(t, p)] = b
        client._group_to_coordinator['g'] = b
        client._group_to_coordinator['other'] = b
        group = r.choice([None, 'g'])
        # coordinator error codes only occur in answers to group requests (which pass the group)
        codes = [r.choice([0, 3, 6, 1, 7] + ([14, 15, 16] if group else [])) for _ in range(r.choice([1, 2]))]
        topics = [r.choice(['a', 'b']) for _ in codes]
        fail = r.choice([True, False])
        script.extend([('codes', codes), ('topics', topics), ('fail_on_error', fail), ('group', group)])
        resps = [ProduceResponse(t, 0, c, 5) for t, c in zip(topics, codes)]
        try:
            client._handle_responses(resps, fail, consumer_group=group)
            raised = None
        except BrokerResponseError as e:
            raised = e
        # responses are handled in order up to the first one that raises
        stale_topics, stale_group, stop = set(), False, False
        must_raise = False
        for t, c in zip(topics, codes):
            if c in (3, 6):
                stale_topics.add(t)
                if fail:
                    must_raise = True
                    break
            elif c in (14, 15, 16):
                stale_group = True
                if fail:
                    must_raise = True
                    break
            elif c != 0 and fail:
                must_raise = True          # any other broker error is raised only to a caller that asked to fail on errors
                break
        for t in ('a', 'b'):
            cached = t in client.topic_partitions or any(k.topic == t for k in client.topics_to_brokers)
            if t in stale_topics and cached:
                raise Hit('C08:stale-routing-kept-after-not-leader-or-unknown-partition', (t, codes))
            if t not in stale_topics and (client.topic_partitions.get(t) != [0, 1] or
                                          any(client.topics_to_brokers.get(TopicAndPartition(t, p)) != b for p in (0, 1))):
                raise Hit('C08:routing-of-an-unaffected-topic-dropped', (t, codes))
        if group is not None and stale_group and 'g' in client._group_to_coordinator:
            raise Hit('C08:stale-coordinator-kept-after-coordinator-error', codes)
        if 'other' not in client._group_to_coordinator or (not stale_group and 'g' not in client._group_to_coordinator):
            raise Hit('C08:coordinator-of-an-unaffected-group-dropped', codes)
        if must_raise and raised is None:
            raise Hit('C08:broker-error-swallowed', codes)
        if not must_raise and raised is not None:
            raise Hit('C08:unexpected-exception-%s' % type(raised).__name__, codes)
    return _run_exhaustive(one, 10 ** 6)


# ---------------------------------------------------------------------------------------------- brokerclient (C06)

def scenario_brokerclient(rnd, n):
    from unittest.mock import Mock
    from afkak.brokerclient import _KafkaBrokerClient
    from afkak.common import BrokerMetadata

    def one(r, script):
        clock = task.Clock()
        ep = Mock()
        connect_ds = []
        ep.return_value.connect.side_effect = lambda f: connect_ds.append(defer.Deferred()) or connect_ds[-1]
        bc = _KafkaBrokerClient(clock, ep, BrokerMetadata(1, 'h', 9092), 'cid', lambda nfail: 1.0)
        fired = {}
        ds = {}
        # correlation ids are only required to be unique per connection, not ascending (they wrap at 2^31)
        pool = r.sample(range(1, 60), 40)
        issued = []
        protos = []

        def written(p):
            return [struct.unpack('>i', c.args[0][:4])[0] for c in p.sendString.call_args_list]

        def check_order():
            # C10: on every connection each request is written at most once and in the order the requests were issued
            for p in protos:
                w = written(p)
                if len(set(w)) != len(w):
                    raise Hit('C10:request-written-twice-on-one-connection', w)
                idx = [issued.index(i) for i in w]
                if idx != sorted(idx):
                    raise Hit('C10:requests-sent-out-of-issue-order', (w, list(issued)))

        def mk(cancel_sibling=None):
            i = pool.pop()
            issued.append(i)
            d = bc.makeRequest(i, struct.pack('>i', i) + b'x', expectResponse=r.random() < 0.8)
            fired[i] = 0

            def done(res, i=i):
                fired[i] += 1
                if fired[i] > 1:
                    raise Hit('C06:request-completed-twice', i)
                if cancel_sibling is not None and cancel_sibling in ds and not ds[cancel_sibling].called:
                    ds[cancel_sibling].cancel()
                return None
            d.addBoth(done)
            ds[i] = d
            return i
        proto = None
        for step in range(r.choice([3, 5, 7])):
            opts = ['request', 'request_cancelling_older']
            if connect_ds and not connect_ds[-1].called and proto is None:
                opts += ['connected', 'connect_failed']
            if proto is not None:
                opts += ['response', 'lost']
            if ds:
                opts += ['cancel']
            opts += ['close'] if step > 1 else []
            ev = r.choice(opts)
            script.append(ev)
            try:
                if ev == 'request':
                    mk()
                elif ev == 'request_cancelling_older':
                    older = [i for i, d in ds.items() if not d.called]
                    mk(cancel_sibling=r.choice(older) if older else None)
                elif ev == 'connected':
                    proto = Mock()
                    protos.append(proto)
                    unanswered = [i for i in issued if i in bc.requests and bc.requests[i].cancelled is None]
                    connect_ds[-1].callback(proto)
                    missing = [i for i in unanswered if i not in written(proto) and i in bc.requests]
                    if missing:
                        raise Hit('C10:unanswered-request-not-re-sent-on-the-new-connection', (missing, written(proto)))
                elif ev == 'connect_failed':
                    connect_ds[-1].errback(Failure(RuntimeError('refused')))
                    clock.advance(1.5)
                elif ev == 'response':
                    cand = [i for i in list(bc.requests)]
                    if cand:
                        bc.handleResponse(struct.pack('>i', r.choice(cand)) + b'resp')
                elif ev == 'lost':
                    proto = None
                    bc._connectionLost(Failure(RuntimeError('lost')))
                elif ev == 'cancel':
                    i = r.choice(sorted(ds))
                    if not ds[i].called:
                        ds[i].cancel()
                elif ev == 'close':
                    dd = bc.close()
                    if proto is not None:
                        proto = None
                        bc._connectionLost(Failure(RuntimeError('closed')))
                    for i, d in ds.items():
                        if fired[i] != 1:
                            raise Hit('C06:request-not-completed-exactly-once-after-close', (i, fired[i]))
                    return
            except Hit:
                raise
            except Exception as e:
                raise Hit('C06:unexpected-exception-%s' % type(e).__name__, '%s during %s' % (e, ev))
            check_order()
    return _run(rnd, n, one)


def scenario_frames(rnd, n):
    """KafkaProtocol over a StringTransport: a frame announcing an impossible length (>= 2^31 read as unsigned) drops the
    connection as soon as its header is complete; a legal frame is delivered exactly once with its own bytes, whatever
    the chunking.  Exhaustive over the listed lengths x chunkings."""
    from unittest.mock import Mock
    from twisted.internet.testing import StringTransport
    from afkak._protocol import KafkaProtocol

    def one(r, script):
        length = r.choice([0, 5, 2 ** 31 - 1, 2 ** 31, 2 ** 31 + 1, 2 ** 32 - 1])
        chunk = r.choice([None, 1, 3])
        script.append(('announced-length', length, 'chunk', chunk))
        p = KafkaProtocol()
        p.factory = Mock()
        t = StringTransport()
        p.makeConnection(t)
        body = b'abcde'[:length] if length <= 5 else b'xxxxxxxx'
        data = struct.pack('>I', length) + body
        pieces = [data] if chunk is None else [data[i:i + chunk] for i in range(0, len(data), chunk)]
        for piece in pieces:
            if t.disconnecting:
                break
            p.dataReceived(piece)
        if length >= 2 ** 31:
            if not t.disconnecting:
                raise Hit('C06:impossible-frame-length-did-not-terminate-the-connection', length)
            if p.factory.handleResponse.called:
                raise Hit('C06:frame-with-impossible-length-was-delivered', length)
        else:
            if t.disconnecting:
                raise Hit('C06:legal-frame-length-terminated-the-connection', length)
            calls = p.factory.handleResponse.call_args_list
            if length <= 5 and [c.args[0] for c in calls] != [body]:
                raise Hit('C06:frame-not-delivered-exactly-once-with-its-own-bytes', (length, calls))
    return _run_exhaustive(one, 1000)


# ---------------------------------------------------------------------------------------------- group (C15 C16 C17)

def scenario_assignment(rnd, n):
    from afkak._group import _ConsumerProtocol
    from afkak.kafkacodec import KafkaCodec
    from afkak.common import _JoinGroupResponseMember

    def one(r, script):
        proto = _ConsumerProtocol()
        members = ['m%d' % i for i in r.sample(range(9), r.choice([1, 2, 3, 4]))]
        topics = ['t%d' % i for i in range(r.choice([1, 2, 3]))]
        identical = r.random() < 0.5
        subs = {m: (list(topics) if identical else (r.sample(topics, r.choice(range(1, len(topics) + 1))))) for m in members}
        tp = {t: sorted(r.sample(range(10), r.choice([0, 1, 2, 3, 5]))) for t in topics}
        script.extend([('members', members), ('subs', subs), ('partitions', tp)])
        results = []
        if r.random() < 0.5:
            # the protocol object lives as long as the coordinator: an earlier rebalance, with another member set and other
            # subscriptions, was abandoned after the first generate_assignments() call (the one that only asks for the
            # partitions to be loaded) - it must leave nothing behind
            earlier = ['m%d' % i for i in r.sample(range(9), r.choice([1, 2, 3]))]
            esubs = {m: r.sample(topics, r.choice(range(1, len(topics) + 1))) for m in earlier}
            script.append(('abandoned-earlier-rebalance', esubs))
            try:
                proto.generate_assignments(
                    [_JoinGroupResponseMember(m, KafkaCodec.encode_join_group_protocol_metadata(0, esubs[m], b'')) for m in earlier], {})
            except Exception:
                pass
        for perm in itertools.islice(itertools.permutations(members), 6):
            ms = [_JoinGroupResponseMember(m, KafkaCodec.encode_join_group_protocol_metadata(0, subs[m], b'')) for m in perm]
            enc = proto.generate_assignments(ms, tp)
            got = {x.member_id: proto.decode_assignment(x.member_metadata) for x in enc}
            got = {m: {t: sorted(ps) for t, ps in a.items() if ps} for m, a in got.items()}
            results.append(got)
            subscribed = {t for m in members for t in subs[m]}
            for t in subscribed:
                for p in tp[t]:
                    owners = [m for m in members if p in got[m].get(t, [])]
                    if len(owners) != 1:
                        raise Hit('C15:partition-not-assigned-to-exactly-one-member', (t, p, owners))
                    if t not in subs[owners[0]]:
                        raise Hit('C15:partition-assigned-to-unsubscribed-member', (t, p, owners[0]))
            if identical:
                sizes = [sum(len(ps) for ps in got[m].values()) for m in members]
                if max(sizes) - min(sizes) > 1:
                    raise Hit('C15:unbalanced-with-identical-subscriptions', sizes)
        for g in results[1:]:
            if g != results[0]:
                raise Hit('C15:assignment-depends-on-member-listing-order', (results[0], g))
    return _run(rnd, n, one)


def scenario_partitioner(rnd, n):
    from afkak.partitioner import RoundRobinPartitioner, HashedPartitioner, pure_murmur2
    JAVA = {b'': 275646681, b'a': 1899144194 if False else None}

    def murmur2_java(data):
        # org.apache.kafka.common.utils.Utils.murmur2 in 32-bit arithmetic (independent transcription)
        length = len(data)
        seed = 0x9747b28c
        m = 0x5bd1e995
        r_ = 24
        h = (seed ^ length) & 0xffffffff
        for i in range(length // 4):
            i4 = i * 4
            k = (data[i4] & 0xff) + ((data[i4 + 1] & 0xff) << 8) + ((data[i4 + 2] & 0xff) << 16) + ((data[i4 + 3] & 0xff) << 24)
            k = (k * m) & 0xffffffff
            k ^= k >> r_
            k = (k * m) & 0xffffffff
            h = (h * m) & 0xffffffff
            h ^= k
        rem = length % 4
        base = length & ~3
        if rem == 3:
            h ^= (data[base + 2] & 0xff) << 16
        if rem >= 2:
            h ^= (data[base + 1] & 0xff) << 8
        if rem >= 1:
            h ^= data[base] & 0xff
            h = (h * m) & 0xffffffff
        h ^= h >> 13
        h = (h * m) & 0xffffffff
        h ^= h >> 15
        return h

    # the spec the proof is stated against must reproduce Kafka's own reference vectors (UtilsTest.testMurmur2):
    # a disagreement is a defect of the specification, i.e. a checker failure, not a violation of afkak
    from specs.hashspec import murmur2_java as spec_murmur2
    for k_, v_ in [(b'21', -973932308), (b'foobar', -790332482), (b'a-little-bit-long-string', -985981536),
                   (b'a-little-bit-longer-string', -1486304829),
                   (b'lkjh234lh9fiuh90y23oiuhsafujhadof229phr9h19h89h8', -58897971), (b'abc', 479470107)]:
        assert spec_murmur2(k_, 0x9747b28c) == v_ % (1 << 32) == murmur2_java(k_), ('spec murmur2_java', k_)

    def one(r, script):
        key = bytes(r.randrange(256) for _ in range(r.choice([0, 1, 2, 3, 4, 5, 7, 8, 13])))
        parts = sorted(r.sample(range(20), r.choice([1, 2, 3, 5])))
        script.append(('key', key.hex(), 'parts', parts))
        if pure_murmur2(bytearray(key)) != murmur2_java(key):
            raise Hit('C18:murmur2-differs-from-java', key.hex())
        hp = HashedPartitioner('t', parts)
        got = hp.partition(key, parts)
        if got != parts[(murmur2_java(key) & 0x7fffffff) % len(parts)]:
            raise Hit('C18:hashed-partition-differs-from-java', (key.hex(), parts, got))
        # round robin fairness with list changes (also in place)
        lst = list(parts)
        rr = RoundRobinPartitioner('t', lst)
        for phase in range(3):
            k = r.choice([1, 2])
            picks = [rr.partition(None, lst) for _ in range(k * len(lst))]
            for p in picks:
                if p not in lst:
                    raise Hit('C18:round-robin-selected-partition-not-in-list', (p, list(lst)))
            counts = {p: picks.count(p) for p in lst}
            if set(counts.values()) != {k}:
                raise Hit('C18:round-robin-not-fair', (list(lst), picks))
            change = r.choice(['append', 'remove', 'new', 'none'])
            script.append(change)
            if change == 'append':
                lst.append(max(lst) + 1)
            elif change == 'remove' and len(lst) > 1:
                lst.remove(r.choice(lst))
            elif change == 'new':
                lst = sorted(set(lst) | {max(lst) + 2})
    return _run(rnd, n, one)


def scenario_group(rnd, n):
    """Coordinator/ConsumerGroup: never idle while started; after stop no group request other than the leave and no consumer"""
    from unittest.mock import Mock, patch
    import afkak._group as G
    from afkak.common import (BrokerMetadata, _JoinGroupResponse, _JoinGroupResponseMember, _SyncGroupResponse,
                              _HeartbeatResponse, _LeaveGroupResponse, RebalanceInProgress, NotCoordinator,
                              KafkaUnavailableError, UnknownMemberId, RequestTimedOutError, IllegalGeneration)
    from afkak.kafkacodec import KafkaCodec

    class RecConsumer:
        live = []
        shutting = []            # (consumer, Deferred) graceful shutdowns that have not finished yet
        slow_shutdown = [False]
        fail_at_start = [None]   # a retriable error the next started consumer reports synchronously (already-failed start)

        def __init__(self, client, topic, partition, processor, consumer_group, commit_consumer_id, commit_generation_id, **kw):
            self.key = (topic, partition, commit_generation_id)
            self._start_d = None
            self.stopped = False

        def start(self, offset):
            older = [c_.key for c_ in RecConsumer.live if c_.key[2] != self.key[2]]
            if older:
                raise Hit('C16:consumer-started-while-consumers-of-an-earlier-generation-run', (self.key, older))
            if RecConsumer.fail_at_start[0] is not None:
                err, RecConsumer.fail_at_start[0] = RecConsumer.fail_at_start[0], None
                self._start_d = defer.fail(Failure(err))
                self.stopped = True
                return self._start_d
            self._start_d = defer.Deferred()
            RecConsumer.live.append(self)
            return self._start_d

        def stop(self):
            self._start_d, d = None, self._start_d
            self.stopped = True
            if self in RecConsumer.live:
                RecConsumer.live.remove(self)
            for pair in list(RecConsumer.shutting):
                if pair[0] is self:
                    RecConsumer.shutting.remove(pair)
            if d and not d.called:
                d.callback(None)

        def shutdown(self):
            if RecConsumer.slow_shutdown[0]:
                # still processing / committing: finishes later (event consumer_shutdown_done)
                d = defer.Deferred()
                RecConsumer.shutting.append((self, d))
                return d
            self.stop()
            return defer.succeed(None)

    def one(r, script):
        RecConsumer.live = []
        RecConsumer.shutting = []
        RecConsumer.slow_shutdown[0] = r.random() < 0.4
        RecConsumer.fail_at_start[0] = None
        clock = task.Clock()
        client = Mock(reactor=clock)
        pending = []
        requests = []

        parts = [0, 1]               # the topic's current partitions in the cluster (may change between rebalances)

        def coord(group):
            return defer.succeed(BrokerMetadata(1, 'h', 1))
        client._get_coordinator_for_group.side_effect = coord
        client.load_metadata_for_topics.side_effect = lambda *t: (defer.fail(KafkaUnavailableError('x')) if r.random() < 0.2 else defer.succeed(True))
        load_fail = [False]
        slow_lookup = [r.random() < 0.4]
        lookups = []

        def ltp(*t):
            # transient metadata failure at the leader's partition lookup: the rebalance is abandoned between the two
            # generate_assignments() calls and retried after the back-off
            if load_fail[0]:
                load_fail[0] = False
                return defer.fail(Failure(KafkaUnavailableError('partition lookup failed')))
            if slow_lookup[0]:
                # the lookup takes a while (event partition_lookup_done): stop() and everything else may happen meanwhile
                d_ = defer.Deferred()
                lookups.append(d_)
                return d_
            return defer.succeed({'t': list(parts)})
        client._load_topic_partitions.side_effect = ltp
        client.topic_partitions = {'t': parts}
        members = ['me']             # the group as the coordinator lists it in the next JoinGroup response

        def srtc(group, payload, encoder_fn, decode_fn, **kw):
            kind = type(payload).__name__
            if kind == '_JoinGroupRequest' and (RecConsumer.live or RecConsumer.shutting):
                raise Hit('C16:join-requested-before-the-previous-generation-consumers-were-shut-down',
                          [c_.key for c_ in RecConsumer.live])
            if kind == '_SyncGroupRequest' and payload.group_assignment:
                # the leader's assignment, decoded with afkak's own member-assignment decoder (checked separately):
                # every CURRENT partition of the subscribed topic goes to exactly one member
                given = []
                for m in payload.group_assignment:
                    a = KafkaCodec.decode_sync_group_member_assignment(m.member_metadata)
                    given.extend(a.assignments.get('t', ()))
                    if m.member_id == 'me':
                        state['assigned'] = sorted(a.assignments.get('t', ()))
                if sorted(m.member_id for m in payload.group_assignment) != sorted(state['members']):
                    raise Hit('C15:assignment-not-addressed-to-exactly-the-current-members',
                              (sorted(m.member_id for m in payload.group_assignment), sorted(state['members'])))
                if sorted(given) != sorted(parts):
                    # (what the CURRENT members of this generation receive: a partition handed to a member of an earlier,
                    # abandoned generation reaches nobody)
                    raise Hit('C15:assignment-does-not-cover-the-current-partitions-exactly-once',
                              (sorted(given), list(parts), sorted(state['members'])))
            requests.append((kind, state['stopping']))
            d = defer.Deferred()
            pending.append((kind, d))
            return d
        client._send_request_to_coordinator.side_effect = srtc
        state = dict(stopping=False, stopped=False, gen=0, assigned=[0, 1], members=['me'])
        with patch.object(G, 'Consumer', RecConsumer):
            g = G.ConsumerGroup(client, 'g', ['t'], lambda *a: None)
            start_res = []
            g.start().addBoth(start_res.append)
            script.append('start')
            for step in range(r.choice([4, 6, 9, 14])):
                opts = ['advance']
                if pending:
                    opts += ['reply', 'reply', 'error']
                if RecConsumer.live and not state['stopping']:
                    opts += ['consumer_error']
                if RecConsumer.shutting:
                    opts += ['consumer_shutdown_done', 'consumer_shutdown_done']
                if lookups:
                    opts += ['partition_lookup_done', 'partition_lookup_done']
                if not state['stopping'] and r.random() < 0.15:
                    opts += ['next_consumer_fails_at_start']
                if not state['stopping'] and r.random() < 0.2:
                    opts += ['partitions_change']
                if not state['stopping'] and r.random() < 0.25:
                    opts += ['membership_change', 'partition_lookup_fails_next']
                if not state['stopping'] and step > 2:
                    opts += ['stop']
                ev = r.choice(opts)
                script.append(ev)
                try:
                    if ev == 'advance':
                        clock.advance(r.choice([0.2, 1.5, 5.0, 11.0]))
                    elif ev in ('reply', 'error'):
                        kind, d = pending.pop(0)
                        if d.called:
                            continue
                        if ev == 'error':
                            d.errback(Failure(r.choice([RebalanceInProgress(), NotCoordinator(), UnknownMemberId(),
                                                        RequestTimedOutError(), IllegalGeneration()])))
                        elif kind == '_JoinGroupRequest':
                            state['gen'] += 1
                            meta = KafkaCodec.encode_join_group_protocol_metadata(0, ['t'], b'')
                            state['members'] = list(members)
                            d.callback(_JoinGroupResponse(0, state['gen'], 'consumer', 'me', 'me',
                                                          [_JoinGroupResponseMember(m_, meta) for m_ in members]))
                        elif kind == '_SyncGroupRequest':
                            d.callback(_SyncGroupResponse(0, KafkaCodec.encode_sync_group_member_assignment(
                                0, {'t': list(state['assigned'])}, b'')))
                        elif kind == '_HeartbeatRequest':
                            d.callback(_HeartbeatResponse(0))
                        else:
                            d.callback(_LeaveGroupResponse(0))
                    elif ev == 'consumer_error':
                        cns = RecConsumer.live[0]
                        if cns._start_d and not cns._start_d.called:
                            # reported through start()'s Deferred; the consumer itself keeps running until it is stopped.
                            # Eviction-type errors (illegal generation, unknown member, timeout) force-stop the consumers.
                            cns._start_d.errback(Failure(r.choice([RebalanceInProgress(), RebalanceInProgress(), IllegalGeneration(),
                                                                   UnknownMemberId(), RequestTimedOutError()])))
                    elif ev == 'partitions_change':
                        newp = r.choice([[0, 1, 2], [0], [1, 3], [0, 1, 2, 5]])
                        parts[:] = newp
                    elif ev == 'membership_change':
                        members[:] = r.choice([['me'], ['m2', 'me'], ['me', 'm2', 'm3'], ['m3', 'me']])
                    elif ev == 'partition_lookup_fails_next':
                        load_fail[0] = True
                    elif ev == 'partition_lookup_done':
                        d_ = lookups.pop(0)
                        if not d_.called:
                            d_.callback({'t': list(parts)})
                    elif ev == 'consumer_shutdown_done':
                        cns, d = RecConsumer.shutting.pop(0)
                        cns.stop()
                        if not d.called:
                            d.callback(None)
                    elif ev == 'next_consumer_fails_at_start':
                        RecConsumer.fail_at_start[0] = r.choice([RebalanceInProgress(), NotCoordinator(), RequestTimedOutError()])
                    elif ev == 'stop':
                        state['stopping'] = True
                        g.stop().addErrback(lambda f: None)
                except Hit:
                    raise
                except Exception as e:
                    raise Hit('C16:unexpected-exception-%s' % type(e).__name__, '%s during %s' % (e, ev))
                # oracles
                for c_ in RecConsumer.live:
                    if c_.key[2] != g.generation_id and not state['stopping']:
                        raise Hit('C16:consumer-of-another-generation-is-running', (c_.key, g.generation_id))
                if state['stopping']:
                    bad = [k for k, st_ in requests if st_ and k != '_LeaveGroupRequest']
                    if bad:
                        raise Hit('C16:group-request-issued-after-stop', (bad, requests, g._state))
                if g._start_d is None and state['stopping']:
                    if RecConsumer.live:
                        raise Hit('C16:consumers-outlive-stop', [c_.key for c_ in RecConsumer.live])
                if not state['stopping'] and not start_res and not g._rejoin_needed and not g._rejoin_d and \
                        g._heartbeat_looper.running and not RecConsumer.shutting:
                    # a member that considers itself joined consumes the partitions assigned to it
                    have = sorted(c_.key[:2] for c_ in RecConsumer.live)
                    if have != [('t', p_) for p_ in state['assigned']]:
                        raise Hit('C17:joined-member-does-not-consume-its-partitions', (have, g._state))
                if not state['stopping'] and not start_res:
                    idle = not g._rejoin_d and not (not g._rejoin_needed and g._heartbeat_looper.running) and \
                        not [dc for dc in clock.getDelayedCalls() if getattr(dc.func, '__name__', '') == 'join_and_sync']
                    if idle and not pending:
                        raise Hit('C17:member-is-idle', dict(state=g._state, rejoin_needed=g._rejoin_needed))
    return _run(rnd, n, one)



def _enc_metadata_response(corr, brokers, topics):
    """MetadataResponse v0 written with struct only: brokers [(node, host, port)], topics [(err, name, [(perr, pid, leader)])]"""
    import struct

    def s16(x):
        b = x.encode()
        return struct.pack('>h', len(b)) + b
    out = struct.pack('>ii', corr, len(brokers))
    for node, host, port in brokers:
        out += struct.pack('>i', node) + s16(host) + struct.pack('>i', port)
    out += struct.pack('>i', len(topics))
    for err, name, parts_ in topics:
        out += struct.pack('>h', err) + s16(name) + struct.pack('>i', len(parts_))
        for perr, pid, leader in parts_:
            out += struct.pack('>hiiii', perr, pid, leader, 1, leader) + struct.pack('>ii', 1, leader)
    return out


def scenario_load_topic_partitions(rnd, n):
    """C17 (partition lookup by the leader): the real KafkaClient._load_topic_partitions over scripted metadata answers.
    Exhaustive over every sequence of up to 4 answers per topic state (healthy / topic error / no partitions / unavailable):
    the lookup ends with the FIRST fully healthy answer and with exactly its partitions, and keeps polling - after the
    retry policy's delay for that attempt - only while the latest answer is unhealthy."""
    from afkak.client import KafkaClient
    from afkak.common import KafkaUnavailableError

    def one(r, script):
        clock = task.Clock()
        delays = []

        def policy(attempt):
            delays.append(attempt)
            return 0.5 * attempt
        client = KafkaClient('h:9092', clientId='c', reactor=clock, retry_policy=policy, enable_protocol_version_discovery=False)
        del delays[:]                # the constructor probes the policy once
        ntopics = r.choice([1, 2])
        names = ['ta', 'tb'][:ntopics]
        nans = r.choice([1, 2, 3, 4])
        answers = []
        for i in range(nans):
            last = i == nans - 1
            kinds = ['ok'] * ntopics if last else [r.choice(['ok', 'error', 'empty']) for _ in names]
            if not last and all(k == 'ok' for k in kinds):
                kinds[0] = r.choice(['error', 'empty'])
            answers.append(kinds)
        script.append(('answers', answers))
        sent = []

        def sbur(requestId, request):
            if len(sent) >= len(answers):
                raise Hit('C17:partition-lookup-keeps-polling-after-a-healthy-answer', (len(sent), answers))
            kinds = answers[len(sent)]
            sent.append(clock.seconds())
            topics = []
            for nm, k in zip(names, kinds):
                base = len(sent)          # partition ids differ from answer to answer
                if k == 'ok':
                    topics.append((0, nm, [(0, base + 2, 1), (0, base, 1)]))
                elif k == 'error':
                    topics.append((5, nm, []))
                else:
                    topics.append((0, nm, []))
            return defer.succeed(_enc_metadata_response(requestId, [(1, 'h', 9092)], topics))
        client._send_broker_unaware_request = sbur
        res = []
        client._load_topic_partitions(*names).addBoth(res.append)
        for step in range(len(answers) + 2):
            if res:
                break
            clock.advance(0.5 * (step + 1))
        if not res:
            raise Hit('C17:partition-lookup-never-ends-although-answers-are-healthy', (len(sent), answers, delays))
        if isinstance(res[0], Failure):
            raise Hit('C17:partition-lookup-failed-%s' % res[0].type.__name__, str(res[0].value))
        if len(sent) != len(answers):
            raise Hit('C17:partition-lookup-ended-before-a-healthy-answer', (len(sent), answers))
        want = {nm: [len(answers), len(answers) + 2] for nm in names}
        if {k: list(v) for k, v in res[0].items()} != want:
            raise Hit('C17:partition-lookup-result-is-not-the-latest-answer', (res[0], want))
        if delays != list(range(1, len(answers))):
            raise Hit('C17:partition-lookup-backoff-not-per-attempt', (delays, len(answers)))
        for a, b in zip(sent, sent[1:]):
            pass
        if clock.getDelayedCalls():
            raise Hit('C17:partition-lookup-leaves-a-timer', [str(dc) for dc in clock.getDelayedCalls()])
    return _run_exhaustive(one, 20000)


SCENARIOS = {
    'consumer': scenario_consumer, 'broker_aware': scenario_broker_aware, 'broker_unaware': scenario_broker_unaware, 'handle_responses': scenario_handle_responses, 'client_close': scenario_client_close,
    'metadata_merge': scenario_metadata_merge, 'brokerclient': scenario_brokerclient, 'assignment': scenario_assignment,
    'partitioner': scenario_partitioner, 'group': scenario_group,
}


# ---------------------------------------------------------------------------------------------- deterministic finding reproducers

def scenario_magic_fallback(rnd, n):
    """C04: with version discovery enabled but failing (old broker), the first produce request must be a v0 request
    whose messages use message format 0"""
    from unittest.mock import Mock
    from afkak import Producer, KafkaClient
    from afkak.common import KafkaUnavailableError, BrokerMetadata, TopicAndPartition

    def one(r, script):
        clock = task.Clock()
        client = KafkaClient(hosts='h:1', reactor=clock, enable_protocol_version_discovery=True)
        client.topic_partitions = {'t': [0]}
        client.topic_errors = {'t': 0}
        client._brokers = {1: BrokerMetadata(1, 'h', 1)}
        client.topics_to_brokers[TopicAndPartition('t', 0)] = BrokerMetadata(1, 'h', 1)
        sent = []
        client._send_broker_unaware_request = lambda rid, req: defer.fail(Failure(KafkaUnavailableError('no ApiVersions')))
        client._make_request_to_broker = lambda broker, rid, req, **kw: sent.append(req) or defer.Deferred()
        client._get_brokerclient = lambda nid: Mock(node_id=nid)
        Producer(client).send_messages('t', msgs=[b'x'])
        script.append('discovery fails, then send_messages')
        req = sent[0]
        key, ver = struct.unpack('>hh', req[:4])
        cid = struct.unpack('>h', req[8:10])[0]
        pos = 10 + cid + 2 + 4 + 4 + 2 + 1 + 4 + 4 + 4 + 8 + 4 + 4
        if (ver >= 2) != (req[pos] == 1):
            raise Hit('C04:header-version-%d-but-message-magic-%d' % (ver, req[pos]), 'Produce request after failed discovery')
    return _run(rnd, 1, one)


def scenario_bootstrap_close(rnd, n):
    """C20: an operation waiting on a bootstrap connection attempt fails at once when the client is closed"""
    from afkak import KafkaClient

    class Hang:
        def __init__(self, reactor, host, port):
            pass

        def connect(self, f):
            return defer.Deferred()

    def one(r, script):
        clock = task.Clock()
        client = KafkaClient(hosts='h1,h2', reactor=clock, endpoint_factory=Hang, enable_protocol_version_discovery=False)
        out = []
        client.load_metadata_for_topics().addBoth(out.append)
        client.close()
        script.append('load_metadata_for_topics pending on a bootstrap connect, then close()')
        if not out:
            raise Hit('C20:operation-pending-on-bootstrap-connect-not-ended-at-close', 'load_metadata_for_topics still pending')
    return _run(rnd, 1, one)


def scenario_bootstrap_late_events(rnd, n):
    """C20: events that arrive after close() - a bootstrap connection attempt succeeding or being refused - cause no
    write, no further connection attempt and no timer, the late connection is dropped, and the operation that was
    waiting ends in failure.  Exhaustive over 1..2 bootstrap hosts x what the late event is."""
    from unittest.mock import Mock
    from afkak import KafkaClient

    def one(r, script):
        clock = task.Clock()
        nh = r.choice([1, 2])
        attempts, written, protos = [], [], []

        class Proto:
            def __init__(self):
                self.transport = Mock()

            def request(self, req):
                written.append(req)
                return defer.Deferred()

        class EP:
            def __init__(self, reactor, host, port):
                self.host = host

            def connect(self, f):
                d = defer.Deferred()
                attempts.append((self.host, d))
                return d

        client = KafkaClient(hosts=','.join('h%d' % i for i in range(nh)), reactor=clock, endpoint_factory=EP,
                             enable_protocol_version_discovery=False)
        out = []
        client.load_metadata_for_topics().addBoth(out.append)
        n0 = len(attempts)
        client.close()
        late = r.choice(['connects', 'refused'])
        script.extend([('bootstrap-hosts', nh), 'load_metadata_for_topics pending on a bootstrap connect', 'close()',
                       ('then-the-attempt', late)])
        host, d = attempts[-1]
        if not d.called:
            if late == 'connects':
                p = Proto()
                protos.append(p)
                d.callback(p)
            else:
                d.errback(Failure(ConnectionRefusedError()))
        clock.advance(1.0)
        if written:
            raise Hit('C20:request-written-to-a-bootstrap-connection-after-close', len(written[0]))
        if len(attempts) > n0:
            raise Hit('C20:connection-attempted-after-close', [h for h, _ in attempts[n0:]])
        for p in protos:
            if not p.transport.loseConnection.called:
                raise Hit('C20:connection-established-after-close-left-open')
        if clock.getDelayedCalls():
            raise Hit('C20:timer-armed-by-a-closed-client', [str(dc) for dc in clock.getDelayedCalls()])
        # (load_metadata_for_topics swallows the cancellation and ends with None, by design: only "ended, and not with a
        # metadata success" is required here)
        if not out or out[0] is True:
            raise Hit('C20:operation-pending-at-close-did-not-end', repr(out)[:100])
    return _run_exhaustive(one, 1000)


def scenario_api_discovery(rnd, n):
    """C04, version discovery: the version a request goes out with is the broker's advertised maximum for that API when
    discovery succeeded (looked up by key in an unordered, sparse table) and 0 when discovery failed - also for the very
    request that triggered the discovery, and consistently for the ones after it.  Exhaustive over the listed outcomes."""
    from afkak import KafkaClient
    from afkak.common import KafkaUnavailableError

    def one(r, script):
        clock = task.Clock()
        client = KafkaClient(hosts='h:1', reactor=clock, enable_protocol_version_discovery=True)
        mode = r.choice(['table', 'table-unordered-sparse', 'error-with-table', 'error-without-table', 'no-answer'])
        key = r.choice([0, 1])
        table = {'table': [(0, 0, 2), (1, 0, 2), (18, 0, 1)],
                 'table-unordered-sparse': [(18, 0, 2), (1, 0, 5), (3, 0, 4), (0, 0, 7)],
                 'error-with-table': [(0, 0, 2), (1, 0, 2)], 'error-without-table': [], 'no-answer': []}[mode]
        err = 35 if mode.startswith('error') else 0
        script.append(('api', key, 'discovery', mode))
        asked = []

        def sbur(rid, req):
            asked.append(req)
            if mode == 'no-answer':
                return defer.fail(Failure(KafkaUnavailableError('no broker answered')))
            body = struct.pack('>ihi', struct.unpack('>i', req[4:8])[0], err, len(table))
            for k, lo, hi in table:
                body += struct.pack('>hhh', k, lo, hi)
            return defer.succeed(body)

        client._send_broker_unaware_request = sbur
        out = []
        for _ in range(2):
            client.get_api_version(key).addBoth(out.append)
        if len(out) != 2 or any(isinstance(x, Failure) for x in out):
            raise Hit('C04:api-version-lookup-did-not-complete', repr(out)[:200])
        want = dict((k, hi) for k, lo, hi in table).get(key, 0) if err == 0 and mode != 'no-answer' else 0
        if out[0] != want:
            raise Hit('C04:version-of-the-request-that-triggered-discovery-differs-from-the-discovered-one', (mode, key, out[0], want))
        if out[1] != want:
            raise Hit('C04:version-after-discovery-differs-from-the-discovered-one', (mode, key, out[1], want))
    return _run_exhaustive(one, 1000)


SCENARIOS['load_topic_partitions'] = scenario_load_topic_partitions
SCENARIOS['api_discovery'] = scenario_api_discovery
SCENARIOS['magic_fallback'] = scenario_magic_fallback
SCENARIOS['bootstrap_close'] = scenario_bootstrap_close
SCENARIOS['bootstrap_late_events'] = scenario_bootstrap_late_events


# ---------------------------------------------------------------------------------------------- producer end to end (C01 C09 C19)

def _parse_msgset(data, out, depth=0):
    """independent reader of a MessageSet (formats 0 and 1, gzip wrappers): appends (key, value, magic)"""
    import struct
    import gzip
    import zlib
    p = 0
    while p < len(data):
        off, size = struct.unpack('>qi', data[p:p + 12])
        body = data[p + 12:p + 12 + size]
        p += 12 + size
        crc, magic, attr = struct.unpack('>IBB', body[:6])
        if crc != zlib.crc32(body[4:]) & 0xffffffff:
            raise ValueError('bad crc in produced message')
        q = 6 + (8 if magic == 1 else 0)
        kl = struct.unpack('>i', body[q:q + 4])[0]
        q += 4
        key = None if kl == -1 else body[q:q + kl]
        q += max(kl, 0)
        vl = struct.unpack('>i', body[q:q + 4])[0]
        q += 4
        val = None if vl == -1 else body[q:q + vl]
        if attr & 3 == 1:
            inner = []
            _parse_msgset(gzip.decompress(val), inner, depth + 1)
            if any(mg != magic for _, _, mg in inner):
                raise Hit('C04:wrapper-message-format-differs-from-the-messages-it-wraps', (magic, [mg for _, _, mg in inner]))
            if key is not None:
                raise Hit('C04:compressed-wrapper-carries-a-key', key)
            out.extend(inner)
        elif attr & 3 == 0:
            out.append((key, val, magic))
        else:
            raise ValueError('unexpected codec %d' % (attr & 3))


def _parse_produce_request(data):
    """-> (api_version, correlation_id, acks, {(topic, partition): [(key, value, magic)]})   (written from the protocol guide)"""
    import struct
    api_key, api_version, corr, cl = struct.unpack('>hhih', data[:10])
    assert api_key == 0, api_key
    p = 10 + max(cl, 0)
    acks, timeout, ntopics = struct.unpack('>hii', data[p:p + 10])
    p += 10
    out = {}
    for _ in range(ntopics):
        tl = struct.unpack('>h', data[p:p + 2])[0]
        topic = data[p + 2:p + 2 + tl].decode()
        p += 2 + tl
        nparts = struct.unpack('>i', data[p:p + 4])[0]
        p += 4
        for _ in range(nparts):
            part, size = struct.unpack('>ii', data[p:p + 8])
            p += 8
            msgs = []
            _parse_msgset(data[p:p + size], msgs)
            p += size
            if (topic, part) in out:
                raise ValueError('partition listed twice in one request')
            out[(topic, part)] = msgs
    assert p == len(data), 'trailing bytes in produce request'
    return api_version, corr, acks, out


def scenario_producer_e2e(rnd, n):
    """Producer composed with the real KafkaClient and codec over simulated broker connections: truthful, exactly-once
    acknowledgements (C01), retry discipline (C09), nothing transmitted after stop (C19)"""
    import struct
    from afkak import KafkaClient, Producer
    from afkak.common import (BrokerMetadata, TopicMetadata, PartitionMetadata, TopicAndPartition, PRODUCER_ACK_NOT_REQUIRED)
    from afkak.kafkacodec import CODEC_NONE, CODEC_GZIP

    class FakeBC:
        def __init__(self, world, node_id):
            self.world, self.node_id = world, node_id
            self.host, self.port = 'b%d' % node_id, 9092

        def makeRequest(self, correlationId, request, expectResponse=True):
            w = self.world
            d = defer.Deferred()
            ver, corr, acks, parts = _parse_produce_request(request)
            if corr != correlationId:
                raise Hit('C04:correlation-id-in-header-differs', (corr, correlationId))
            want_magic = 1 if ver >= 2 else 0          # produce v0/v1 carry format 0, v2 format 1
            bad = [mg for ms in parts.values() for _, _, mg in ms if mg != want_magic]
            if bad or ver not in (0, 1, 2):
                raise Hit('C04:header-version-%d-but-message-magic-%s' % (ver, sorted(set(bad))), None)
            e = dict(node=self.node_id, corr=corr, acks=acks, parts=parts, d=d, status='pending', expect=expectResponse, ver=ver,
                     after_stop=w['stopped'], leaders=dict(w['leaders']), seq=len(w['log']))
            w['log'].append(e)
            if not expectResponse:
                e['status'] = 'written'
                d.callback(None)           # a no-response request completes once written to the connection
            return d

        def connected(self):
            return True

        def close(self):
            return defer.succeed(None)

        def updateMetadata(self, m):
            pass

        def disconnect(self):
            pass

    def one(r, script):
        clock = task.Clock()
        client = KafkaClient(hosts='h:1', reactor=clock, enable_protocol_version_discovery=False, timeout=30000)
        world = dict(log=[], leaders={0: r.choice([1, 2]), 1: r.choice([1, 2])}, stopped=False, md_pending=[])
        if r.random() < 0.4:
            # the broker advertised its API versions (in no particular order): produce v2 => message format 1
            from afkak.common import ApiVersion
            client._api_versions = [ApiVersion(3, 0, 2), ApiVersion(0, 0, r.choice([2, 3, 7])), ApiVersion(1, 0, 3)]
        fakes = {1: FakeBC(world, 1), 2: FakeBC(world, 2)}
        brokers = {i: BrokerMetadata(i, 'b%d' % i, 9092) for i in (1, 2)}
        client._get_brokerclient = lambda nid: fakes[nid]
        md_fail = [False]

        def install_md():
            parts = {p: PartitionMetadata('t', p, 0, world['leaders'][p], (1, 2), (1, 2)) for p in (0, 1)}
            client._merge_topic_metadata(brokers, {'t': TopicMetadata('t', 0, parts)}, False)

        def load_md(*topics):
            if md_fail[0]:
                from afkak.common import KafkaUnavailableError
                return defer.fail(Failure(KafkaUnavailableError('no metadata')))
            if md_slow[0]:
                d = defer.Deferred()            # answered later by an `md-reply` event
                world['md_pending'].append(d)
                return d
            install_md()
            return defer.succeed(None)

        def md_reply(ok):
            d = world['md_pending'].pop(0)
            if d.called:
                return
            if ok:
                install_md()
                d.callback(None)
            else:
                from afkak.common import KafkaUnavailableError
                d.errback(Failure(KafkaUnavailableError('no metadata')))

        md_slow = [False]
        client.load_metadata_for_topics = load_md
        if r.random() < 0.75:
            load_md('t')                      # otherwise the producer starts without any metadata for the topic
        md_slow[0] = r.random() < 0.4
        acks = r.choice([1, 1, -1, 0])
        batch = r.choice([False, True, True])
        max_att = r.choice([1, 2, 3, 4])
        codec = r.choice([CODEC_NONE, CODEC_NONE, CODEC_GZIP])
        kw = dict(batch_send=True, batch_every_n=r.choice([2, 3]), batch_every_b=0, batch_every_t=r.choice([0, 5])) if batch else {}
        prod = Producer(client, req_acks=acks, max_req_attempts=max_att, retry_interval=0.25, codec=codec, **kw)
        script.append(('config', dict(acks=acks, batch=kw, max_attempts=max_att, codec=codec, leaders=dict(world['leaders']))))
        sends = []

        def do_send():
            sid = len(sends)
            key = r.choice([None, None, b'k1'])
            msgs = [b'm%d-%d' % (sid, j) for j in range(r.choice([1, 1, 2]))]
            if r.random() < 0.2:
                msgs.append(r.choice([None, b'']))
            s = dict(sid=sid, key=key, msgs=msgs, out=[], cancelled=False)
            sends.append(s)
            script.append(('send', sid, key, [m if m is None else m.decode() for m in msgs]))
            d = prod.send_messages('t', key=key, msgs=list(msgs))
            d.addBoth(s['out'].append)
            s['d'] = d

        def pending():
            return [e for e in world['log'] if e['status'] == 'pending']

        def answer(e, how):
            script.append(('answer', e['seq'], e['node'], how))
            if how == 'drop':
                e['status'] = 'failed'
                from afkak.common import ClientError
                e['d'].errback(Failure(ClientError('connection lost')))
                return
            codes = {}
            for (t, p) in e['parts']:
                if how == 'ok':
                    codes[(t, p)] = 0 if world['leaders'][p] == e['node'] else 6      # only the leader acknowledges
                else:
                    codes[(t, p)] = how
            e['status'] = 'answered'
            e['codes'] = codes
            e['answered_at'] = len(world['log'])        # requests logged from now on were issued after this answer
            body = struct.pack('>ii', e['corr'], 1) + struct.pack('>h', 1) + b't' + struct.pack('>i', len(codes))
            for (t, p), c in codes.items():
                body += struct.pack('>ihq', p, c, 100 + e['seq'])
                if e['ver'] >= 2:
                    body += struct.pack('>q', -1)               # log_append_time
            if e['ver'] >= 1:
                body += struct.pack('>i', 0)                    # throttle_time_ms
            e['d'].callback(body)

        nsteps = r.choice([3, 5, 8, 12])
        for step in range(nsteps):
            opts = ['tick'] if world['stopped'] else ['send', 'send', 'tick']
            if pending():
                opts += ['answer', 'answer', 'answer']
            if step > 1 and not world['stopped']:
                opts += ['move', 'mdfail']
                if r.random() < 0.2:
                    opts.append('stop')
            if sends and r.random() < (0.5 if world['md_pending'] else 0.15):
                opts.append('cancel')
            if world['md_pending']:
                opts += ['md-reply', 'md-reply']
            ev = r.choice(opts)
            if ev == 'send':
                do_send()
            elif ev == 'md-reply':
                ok = r.random() < 0.6
                script.append(('metadata-reply', ok))
                md_reply(ok)
            elif ev == 'stop':
                # stop with whatever is queued / in flight: every outstanding send fails, nothing further is transmitted
                script.append('stop')
                world['stopped'] = True
                prod.stop()
                unfired = [s['sid'] for s in sends if not s['out']]
                if unfired:
                    raise Hit('C19:send-outstanding-at-stop-not-failed', unfired)
            elif ev == 'tick':
                dt = r.choice([0.1, 0.3, 1.0, 6.0, 31.0])
                script.append(('tick', dt))
                clock.advance(dt)
                for e in pending():
                    if e['d'].called:
                        e['status'] = 'timed-out'
            elif ev == 'answer':
                answer(r.choice(pending()), r.choice(['ok', 'ok', 'ok', 6, 3, 7, 'drop']))
            elif ev == 'move':
                p = r.choice([0, 1])
                world['leaders'][p] = 3 - world['leaders'][p]
                script.append(('leader-moves', p, world['leaders'][p]))
            elif ev == 'mdfail':
                md_fail[0] = not md_fail[0]
                script.append(('metadata-unavailable', md_fail[0]))
            elif ev == 'cancel':
                s = r.choice(sends)
                if not s['out']:
                    script.append(('cancel', s['sid']))
                    s['cancelled'] = True
                    # still queued (not handed to a batch): the messages must never be transmitted
                    s['before_dispatch'] = any(q.deferred is s['d'] for q in prod._batch_reqs)
                    s['d'].cancel()
        # drain: brokers answer what is pending (leaders acknowledge), timers run, then the producer is stopped
        md_fail[0] = False
        md_slow[0] = False
        for _ in range(60):
            while world['md_pending']:
                md_reply(True)
            for e in pending():
                if e['d'].called:
                    e['status'] = 'timed-out'
                else:
                    answer(e, 'ok')
            clock.advance(1.0)
            if all(s['out'] for s in sends) and not pending():
                break
        if not world['stopped']:
            # the cluster has been healthy for a minute: every send must have ended one way or the other by now
            waits_for_threshold = bool(kw) and not kw.get('batch_every_t')       # queued under the threshold, no time limit
            stuck = [s['sid'] for s in sends if not s['out'] and not (
                waits_for_threshold and not any(v == s['msgs'][0] for e in world['log'] for ms in e['parts'].values() for k, v, mg in ms))]
            if stuck:
                raise Hit('C01:send-never-resolved-although-the-cluster-answers', stuck)
        if not world['stopped']:
            script.append('stop')
            world['stopped'] = True
            prod.stop()
        clock.advance(60.0)
        late = [e for e in world['log'] if e['after_stop']]
        if late:
            raise Hit('C19:produce-request-transmitted-after-stop', [e['seq'] for e in late])
        for s in sends:
            uniq = s['msgs'][0]
            carriers = [e for e in world['log'] for (t, p), ms in e['parts'].items() if any(v == uniq for k, v, mg in ms)]
            if len(s['out']) != 1:
                raise Hit('C01:send-deferred-fired-%d-times' % len(s['out']), s['sid'])
            if s.get('before_dispatch') and carriers:
                raise Hit('C19:send-cancelled-before-dispatch-was-transmitted', (s['sid'], [e['seq'] for e in carriers]))
            res = s['out'][0]
            acked = []
            for e in carriers:
                for (t, p), ms in e['parts'].items():
                    vals = [(k, v) for k, v, mg in ms]
                    want = [(s['key'], m) for m in s['msgs']]
                    pos = [i for i in range(len(vals)) if vals[i:i + len(want)] == want]
                    if any(v == uniq for k, v in vals) and not pos:
                        raise Hit('C01:request-does-not-carry-exactly-the-messages-of-the-send', (s['sid'], vals))
                    # code 0 is only ever given by the node leading the partition when it answers (see answer())
                    if pos and (e['status'] == 'written' or (e['status'] == 'answered' and e['codes'][(t, p)] == 0)):
                        acked.append((e, p))
            if not isinstance(res, Failure):
                if acks == PRODUCER_ACK_NOT_REQUIRED:
                    if res is not None or not acked:
                        raise Hit('C01:unacknowledged-send-reported-success-without-being-handed-to-a-connection', (s['sid'], repr(res)))
                else:
                    if not acked:
                        raise Hit('C01:success-reported-without-an-acknowledgement-from-the-leader', (s['sid'], repr(res)[:120], [(e['seq'], e['node'], e['status'], e.get('codes'), e['leaders'], list(e['parts'])) for e in carriers]))
                    if getattr(res, 'topic', None) != 't' or getattr(res, 'error', None) != 0 or \
                            res.partition not in [p for e, p in acked]:
                        raise Hit('C01:result-does-not-name-the-acknowledged-topic-and-partition', (s['sid'], repr(res)[:120]))
            # C09: a payload acknowledged by the leader is never transmitted again
            ok_time = [e['answered_at'] for e, p in acked if e['status'] == 'answered']
            if ok_time:
                again = [e['seq'] for e in carriers if e['seq'] >= min(ok_time)]
                if again:
                    raise Hit('C09:payload-transmitted-again-after-the-leader-acknowledged-it', (s['sid'], again, [(e['seq'], e['node'], e['status'], e.get('codes'), {k: [v for _, v, _ in ms] for k, ms in e['parts'].items()}) for e in world['log']]))
            # attempts: a send is carried by at most max_attempts requests per batch it belongs to
            if len(carriers) > max_att:
                raise Hit('C09:payload-transmitted-more-often-than-the-attempt-limit', (s['sid'], len(carriers), max_att))
        # C09: per partition, messages keep submission order inside every request
        for e in world['log']:
            for (t, p), ms in e['parts'].items():
                ids = [int(v.split(b'-')[0][1:]) for k, v, mg in ms if v and v.startswith(b'm')]
                if ids != sorted(ids):
                    raise Hit('C09:messages-of-one-partition-out-of-submission-order', (e['seq'], ids))
    return _run(rnd, n, one)


SCENARIOS['producer_e2e'] = scenario_producer_e2e
SCENARIOS['frames'] = scenario_frames


# ---------------------------------------------------------------------------------------------- consumer end to end (C02 C03 C12 C13)

def _parse_consumer_request(data):
    """-> dict(kind, corr, ...) for the four request kinds a Consumer issues (written from the protocol guide)"""
    import struct
    api_key, api_version, corr, cl = struct.unpack('>hhih', data[:10])
    p = 10 + max(cl, 0)

    def rstr(p):
        n = struct.unpack('>h', data[p:p + 2])[0]
        return data[p + 2:p + 2 + n].decode(), p + 2 + n

    out = dict(api_key=api_key, api_version=api_version, corr=corr)
    if api_key == 1:
        replica, wait, minb, nt = struct.unpack('>iiii', data[p:p + 16])
        p += 16
        topic, p = rstr(p)
        npart, part, off, maxb = struct.unpack('>iiqi', data[p:p + 20])
        assert nt == 1 and npart == 1 and p + 20 == len(data)
        out.update(kind='fetch', topic=topic, partition=part, offset=off, max_bytes=maxb)
    elif api_key == 2:
        replica, nt = struct.unpack('>ii', data[p:p + 8])
        p += 8
        topic, p = rstr(p)
        npart, part, time_, maxo = struct.unpack('>iiqi', data[p:p + 20])
        assert nt == 1 and npart == 1 and p + 20 == len(data)
        out.update(kind='offset', topic=topic, partition=part, time=time_)
    elif api_key == 8:
        group, p = rstr(p)
        gen = struct.unpack('>i', data[p:p + 4])[0]
        p += 4
        member, p = rstr(p)
        nt = struct.unpack('>i', data[p:p + 4])[0]
        p += 4
        topic, p = rstr(p)
        npart, part, off, ts = struct.unpack('>iiqq', data[p:p + 24])
        out.update(kind='commit', group=group, topic=topic, partition=part, offset=off)
    elif api_key == 9:
        group, p = rstr(p)
        nt = struct.unpack('>i', data[p:p + 4])[0]
        p += 4
        topic, p = rstr(p)
        npart, part = struct.unpack('>ii', data[p:p + 8])
        out.update(kind='offset_fetch', group=group, topic=topic, partition=part)
    else:
        raise AssertionError('unexpected api key %d from a consumer' % api_key)
    return out


def scenario_consumer_e2e(rnd, n):
    """Consumer composed with the real KafkaClient and codec over a simulated broker holding a log with compaction gaps,
    compressed wrappers in both message formats and fetch-size truncation: in-order exactly-once delivery of exactly the
    log's content (C02, C12), commits never ahead of successful processing (C03), quiescence after stop (C13)"""
    import struct
    from afkak import KafkaClient, Consumer
    from afkak.common import (BrokerMetadata, TopicAndPartition, OFFSET_EARLIEST, OFFSET_COMMITTED)
    from specs import prims as P

    class FakeBC:
        def __init__(self, world):
            self.world = world
            self.node_id, self.host, self.port = 1, 'b1', 9092

        def makeRequest(self, correlationId, request, expectResponse=True):
            d = defer.Deferred()
            q = _parse_consumer_request(request)
            if q['corr'] != correlationId:
                raise Hit('C04:correlation-id-in-header-differs', (q['corr'], correlationId))
            q['d'] = d
            q['after_stop'] = self.world['stopped']
            self.world['pending'].append(q)
            self.world['requests'].append(q)
            return d

        def connected(self):
            return True

        def disconnect(self):
            pass

        def close(self):
            return defer.succeed(None)

    def one(r, script):
        with UnhandledErrors() as ue:
            one_inner(r, script)
        # only crashes inside a handler count (the handler did not finish its job); a failure nobody consumed - a cancelled
        # simulated-broker Deferred, a second attempt to fire start()'s Deferred that Twisted refuses - is logged noise,
        # not a violation of the statement
        bad = [b for b in ue.bad() if b[0] in ('AttributeError', 'TypeError', 'KeyError', 'IndexError', 'NameError',
                                                'AssertionError', 'UnboundLocalError', 'ZeroDivisionError')]
        if bad:
            raise Hit('C13:unexpected-exception-%s' % bad[0][0], bad)

    def one_inner(r, script):
        clock = task.Clock()
        client = KafkaClient(hosts='h:1', reactor=clock, enable_protocol_version_discovery=False, timeout=30000)
        world = dict(pending=[], requests=[], stopped=False, committed=None)
        bc = FakeBC(world)
        b1 = BrokerMetadata(1, 'b1', 9092)
        client._brokers[1] = b1
        client._get_brokerclient = lambda nid: bc

        def load_md(*topics):
            client.topic_partitions['t'] = [0]
            client.topic_errors['t'] = 0
            client.topics_to_brokers[TopicAndPartition('t', 0)] = b1
            return defer.succeed(None)

        def load_coord(group):
            client._group_to_coordinator[group] = b1
            return defer.succeed(None)

        client.load_metadata_for_topics = load_md
        client.load_coordinator_for_group = load_coord
        load_md()
        # the partition log: offsets with compaction gaps, values derived from the offset
        log = []
        off = r.choice([0, 0, 5])
        for _ in range(r.choice([6, 10, 14])):
            log.append(off)
            off += r.choice([1, 1, 1, 2, 4])
        val = lambda o: b'value-%d' % o
        key = lambda o: None if o % 3 == 0 else b'k%d' % o
        group = r.random() < 0.7
        start = r.choice([OFFSET_EARLIEST, log[0], log[min(2, len(log) - 1)], OFFSET_COMMITTED if group else log[0]])
        world['committed'] = r.choice([None, log[1]]) if start == OFFSET_COMMITTED else None
        invoked, proc_pending = [], []
        state = dict(in_processor=0, failed=False, processed_ok=[], stopped=False)

        def processor(consumer, block):
            offs = [m.offset for m in block]
            if state['stopped']:
                raise Hit('C13:processor-invoked-after-stop', offs)
            if state['in_processor']:
                raise Hit('C02:processor-invoked-while-previous-result-pending', offs)
            for m in block:
                if m.offset not in log:
                    raise Hit('C02:delivered-offset-not-in-the-log', m.offset)
                if m.message.value != val(m.offset) or m.message.key != key(m.offset):
                    raise Hit('C12:delivered-content-differs-from-the-log', (m.offset, m.message.value))
            flat = [o for b in invoked for o in b] + offs
            for a, b in zip(flat, flat[1:]):
                if b <= a:
                    raise Hit('C02:delivery-not-strictly-increasing', flat)
            invoked.append(offs)
            d = defer.Deferred()
            state['in_processor'] += 1
            proc_pending.append((d, offs))
            if r.random() < 0.3:
                # a Deferred that HAS fired but whose result is still pending: its chain is paused on `d`
                outer = defer.succeed(None)
                outer.addCallback(lambda _: d)
                return outer
            return d

        bufsize = r.choice([64, 160, 4096])
        c = Consumer(client, 't', 0, processor, consumer_group='g' if group else None,
                     auto_commit_every_n=r.choice([1, 2, 0]) if group else None, auto_commit_every_ms=0 if group else None,
                     buffer_size=bufsize, max_buffer_size=r.choice([None, 4096]),
                     request_retry_init_delay=0.5, request_retry_max_delay=2.0)
        script.append(('log', log, 'start', start, 'committed', world['committed'], 'group', group, 'buffer', bufsize))
        start_results, shutdown_results = [], []
        c.start(start).addBoth(start_results.append)
        expected_first = [None]

        def fetch_reply(q, mode):
            """a FetchResponse v0 for the request: the log from the wrapper/entry containing the requested offset on"""
            avail = [o for o in log if o >= q['offset']]
            fmt = r.choice([0, 1])
            entries = []
            take = avail[:r.choice([1, 2, 3, 5])]
            if mode == 'wrapped' and take:
                # a compressed wrapper may start BEFORE the requested offset (the broker returns whole wrappers)
                idx = log.index(take[0])
                first = max(0, idx - r.choice([0, 1, 2]))
                inner_offs = log[first:idx + len(take)]
                if fmt == 0:
                    inner = P.nat_enc_msgset([(o, P.nat_enc_msg(0, 0, key(o), val(o))) for o in inner_offs])
                else:
                    # format 1: inner offsets are relative to the wrapper's first message and the wrapper carries the
                    # absolute offset of the last one; a compacted wrapper keeps the surviving messages' original
                    # relative offsets, so they need neither be contiguous nor start at 0
                    shift = r.choice([0, 0, 2])
                    inner = P.nat_enc_msgset([(o - inner_offs[0] + shift, P.nat_enc_msg(1, 0, key(o), val(o), 1500000000000))
                                              for o in inner_offs])
                entries.append((inner_offs[-1], P.nat_wrap_gzip(fmt, inner, 1500000000000)))
            else:
                for o in take:
                    entries.append((o, P.nat_enc_msg(fmt, 0, key(o), val(o), 1500000000000)))
            ms = P.nat_enc_msgset(entries)
            if mode == 'truncated' or len(ms) > q['max_bytes']:
                ms = ms[:min(len(ms), q['max_bytes']) if mode != 'truncated' else max(0, min(len(ms), q['max_bytes']) - r.choice([1, 5, 13]))]
            hw = log[-1] + 1
            return (struct.pack('>ii', q['corr'], 1) + struct.pack('>h', 1) + b't' + struct.pack('>i', 1) +
                    struct.pack('>ihqi', 0, 0, hw, len(ms)) + ms)

        def reply(q, how):
            script.append(('reply', q['kind'], q.get('offset'), how))
            d = q['d']
            if d.called:
                return
            if how == 'drop':
                from afkak.common import ClientError
                d.errback(Failure(ClientError('connection lost')))
                return
            hdr = struct.pack('>ii', q['corr'], 1) + struct.pack('>h', 1) + b't' + struct.pack('>i', 1)
            if isinstance(how, int):          # error code in the partition entry
                if q['kind'] == 'fetch':
                    d.callback(hdr + struct.pack('>ihqi', 0, how, -1, 0))
                elif q['kind'] == 'offset':
                    d.callback(hdr + struct.pack('>ihi', 0, how, 0))
                elif q['kind'] == 'commit':
                    d.callback(hdr + struct.pack('>ih', 0, how))
                else:
                    d.callback(hdr + struct.pack('>iqhh', 0, -1, 0, how))
                return
            if q['kind'] == 'fetch':
                d.callback(fetch_reply(q, how))
            elif q['kind'] == 'offset':
                d.callback(hdr + struct.pack('>ihiq', 0, 0, 1, log[0] if q['time'] == -2 else log[-1] + 1))
            elif q['kind'] == 'commit':
                world['committed'] = q['offset']
                d.callback(hdr + struct.pack('>ih', 0, 0))
            else:
                co = -1 if world['committed'] is None else world['committed']
                d.callback(hdr + struct.pack('>iqhh', 0, co, 0, 0))

        def check():
            if len(start_results) > 1:
                raise Hit('C13:start-deferred-fired-twice', repr(start_results)[:200])
            for q in world['requests']:
                if q['kind'] == 'commit' and q['offset'] not in state['processed_ok']:
                    raise Hit('C03:committed-offset-not-successfully-processed', (q['offset'], state['processed_ok']))
                if q['after_stop']:
                    raise Hit('C13:request-issued-after-stop', q['kind'])
            if state['stopped'] and clock.getDelayedCalls():
                raise Hit('C13:timer-left-after-stop', [str(dc) for dc in clock.getDelayedCalls()])

        for step in range(r.choice([6, 10, 16])):
            live = [q for q in world['pending'] if not q['d'].called]
            choices = ['advance']
            if live:
                choices += ['reply'] * 4
            if proc_pending:
                choices += ['proc_ok', 'proc_ok', 'proc_ok', 'proc_fail'] if r.random() < 0.3 else ['proc_ok'] * 3
            if not state['stopped'] and step > 2:
                choices += ['stop'] if r.random() < 0.15 else []
                choices += ['shutdown'] if r.random() < 0.1 and not shutdown_results else []
                if group:
                    choices += ['commit']
            ev = r.choice(choices)
            try:
                if ev == 'advance':
                    dt = r.choice([0, 0.5, 2.5])
                    script.append(('advance', dt))
                    clock.advance(dt)
                elif ev == 'reply':
                    q = r.choice(live)
                    world['pending'].remove(q)
                    how = r.choice(['plain', 'plain', 'wrapped', 'wrapped', 'truncated', 'drop', 7, 6]) if q['kind'] == 'fetch' \
                        else r.choice(['ok', 'ok', 'ok', 'drop', 7])
                    reply(q, how)
                elif ev in ('proc_ok', 'proc_fail'):
                    d, offs = proc_pending.pop(0)
                    state['in_processor'] -= 1
                    script.append((ev, offs))
                    if d.called:
                        continue
                    if ev == 'proc_ok':
                        if not state['failed']:
                            state['processed_ok'].extend(offs)
                        d.callback(None)
                    else:
                        state['failed'] = True
                        d.errback(Failure(RuntimeError('processor failed')))
                elif ev == 'commit':
                    script.append('commit')
                    c.commit().addErrback(lambda f: None)
                elif ev == 'stop':
                    if c._start_d is not None:
                        script.append('stop')
                        c.stop()
                        state['stopped'] = True
                        world['stopped'] = True
                elif ev == 'shutdown':
                    if c._start_d is not None and not c._shutdown_d:
                        script.append('shutdown')
                        c.shutdown().addBoth(shutdown_results.append)
            except Hit:
                raise
            except Exception as e:
                raise Hit('C13:unexpected-exception-%s' % type(e).__name__, '%s in %s' % (e, ev))
            if c._start_d is None and not state['stopped']:
                state['stopped'] = True
                world['stopped'] = True
            for res in shutdown_results:
                if not isinstance(res, Failure) and group and c._last_processed_offset is not None \
                        and c._last_committed_offset != c._last_processed_offset:
                    raise Hit('C13:shutdown-succeeded-with-uncommitted-progress',
                              (c._last_committed_offset, c._last_processed_offset))
            check()
        # C02: what was delivered is a gap-free run of the log starting at the position the consumer was started from
        flat = [o for b in invoked for o in b]
        if flat:
            if start == OFFSET_EARLIEST:
                first = log[0]
            elif start == OFFSET_COMMITTED:
                first = None          # decided by the committed offset the broker reported
            else:
                first = min(o for o in log if o >= start)
            i0 = log.index(flat[0])
            if first is not None and flat[0] != first:
                raise Hit('C02:delivery-does-not-start-at-the-requested-position', (flat[0], first))
            if flat != log[i0:i0 + len(flat)]:
                raise Hit('C02:log-entry-skipped-or-repeated', (flat, log[i0:i0 + len(flat)]))
        for res in start_results:
            if isinstance(res, Failure):
                res.trap(Exception)
    return _run(rnd, n, one)


SCENARIOS['consumer_e2e'] = scenario_consumer_e2e
