"""C16 'after stop no group request other than the leave is issued': stop() while the leader's partition lookup is pending."""
import sys
from unittest.mock import Mock, patch
from twisted.internet import task, defer
import afkak._group as G
from afkak.common import BrokerMetadata, _JoinGroupResponse, _JoinGroupResponseMember, _LeaveGroupResponse
from afkak.kafkacodec import KafkaCodec

clock = task.Clock()
client = Mock(reactor=clock)
client._get_coordinator_for_group.side_effect = lambda g: defer.succeed(BrokerMetadata(1, 'h', 1))
client.load_metadata_for_topics.side_effect = lambda *t: defer.succeed(True)
lookup = defer.Deferred()
client._load_topic_partitions.side_effect = lambda *t: lookup
requests, pending = [], []


def srtc(group, payload, encoder_fn, decode_fn, **kw):
    requests.append(type(payload).__name__)
    d = defer.Deferred()
    pending.append(d)
    return d


client._send_request_to_coordinator.side_effect = srtc
g = G.ConsumerGroup(client, 'g', ['t'], lambda *a: None)
g.start()
meta = KafkaCodec.encode_join_group_protocol_metadata(0, ['t'], b'')
pending.pop(0).callback(_JoinGroupResponse(0, 1, 'consumer', 'me', 'me', [_JoinGroupResponseMember('me', meta)]))
print('after join reply (leader, partition lookup pending):', requests)
g.stop().addErrback(lambda f: None)
print('after stop():', requests)
lookup.callback({'t': [0, 1]})           # the lookup completes while stop() waits for the LeaveGroup reply
print('after the lookup completed:', requests)
after_stop = requests[requests.index('_LeaveGroupRequest') + 1:] if '_LeaveGroupRequest' in requests else requests[1:]
if after_stop:
    print('FAIL: group request(s) issued after stop():', after_stop)
    sys.exit(1)
print('PASS')
