"""Glue between the engine and the heap / Twisted model: unit entry/exit for methods and closures over `self`,
method dispatch on references, table provenance for per-entry invariants, loops whose bodies write the heap."""
import ast
import z3

from . import ty as T
from .ty import V, INT, BOOL, REAL, BYTES, STR, NONE, ANY, VNONE, vint, vbool
from . import heap as H
from . import twisted_model as TM
from .heap import KLASSES


def heap_read(eng, ref, field):
    v = H.heap_read(eng, ref, field)
    if isinstance(v, V):
        H.note_ref(eng, v)
        k = KLASSES[ref.ty[1]]
        if field in k.tables and v.ty[0] == 'dict':
            eng.st.ghost.setdefault('table_of', {})[v.t.get_id()] = (ref, field)
    return v


def heap_write(eng, ref, field, v):
    return H.heap_write(eng, ref, field, v)


def old_expr(eng, arg, fr):
    return H.old_expr(eng, arg, fr)


def table_prov(eng, d):
    return eng.st.ghost.get('table_of', {}).get(d.t.get_id())


def note_entry_read(eng, d, key_v, entry_v, present):
    prov = table_prov(eng, d)
    if prov is not None:
        H.on_table_read(eng, prov[0], prov[1], key_v, entry_v, present)
    if isinstance(entry_v, V):
        H.note_ref(eng, entry_v)


def construct_object(eng, ci, args, kwargs, fr, node):
    """instantiating a declared class: attrs-style records (fields in declaration order) become fresh heap objects"""
    from .engine import Unsupported
    name = ci.name
    k = KLASSES.get(name)
    if k is None:
        raise Unsupported('construction of undeclared class %s' % name)
    fields = ci.attr_fields
    if not fields:
        raise Unsupported('construction of %s (no attrs fields)' % name)
    a = list(args)
    init = {}
    for f, dflt in fields:
        if a:
            init[f] = a.pop(0)
        elif f in kwargs:
            init[f] = kwargs[f]
        elif dflt is not None:
            init[f] = eng.eval(dflt, None)
        else:
            raise Unsupported('missing field %s constructing %s' % (f, name))
    ref = H.alloc(eng, name, init)
    # ghost assignments declared for this constructor, e.g. {"d.owner": "correlationId"}
    for target, expr in k.ghost_on_construct.items():
        fld, gf = target.split('.')
        obj = init[fld]
        from .engine import Frame
        gfr = Frame(None)
        gfr.vars.update(init)
        H.heap_write(eng, obj, gf, eng.pure_expr(expr, gfr), init=True)   # ghost set once, at construction
    return ref


def unit_entry(eng, fi, c, fr):
    """methods / closures over self: `self` is a pre-existing object whose invariant holds at entry"""
    st = eng.st
    st.trace = []
    objs = []
    f = fr
    while f is not None:
        for name, v in f.vars.items():
            if isinstance(v, V) and v.ty[0] == 'ref' and v.ty[1] in KLASSES and not KLASSES[v.ty[1]].external:
                objs.append(v)
            if isinstance(v, V):
                t = v.ty[1] if v.ty[0] == 'opt' else v.ty
                if t[0] == 'ref':
                    tt = T.opt_val(v).t if v.ty[0] == 'opt' else v.t
                    cond = z3.And(tt >= 1, tt < H.FRESH_BASE)
                    eng.assume(z3.Implies(z3.Not(T.is_none(v)), cond) if v.ty[0] == 'opt' else cond)
                    H.note_ref(eng, v)
        f = f.parent
    st.ghost['entry_heap'] = dict(st.heap)
    if not c.extra.get('no_invariant_at_entry'):
        for o in objs:
            H.assume_invariant(eng, o, exempt=set(c.extra.get('inv_exempt_at_entry', [])))
    else:
        for o in objs:
            st.ghost.setdefault('inv_objects', {})
    st.ghost['unit_objs'] = objs
    st.ghost['entry_heap'] = dict(st.heap)


def unit_exit(eng, fi, c, fr, outcome):
    objs = eng.st.ghost.get('unit_objs', [])
    frame_decl = c.extra.get('modifies')
    entry = eng.st.ghost.get('entry_heap')
    if frame_decl is not None and entry is not None and c.extra.get('method'):
        # the frame callers rely on (their havoc at the call is restricted to it) is checked here: nothing outside changed
        for key_ in sorted(eng.st.heap):
            cname, f_ = key_
            if ('%s.%s' % (cname, f_)) in frame_decl or (cname + '.*') in frame_decl or key_ not in entry:
                continue
            if eng.st.heap[key_] is not entry[key_] and not eng.st.heap[key_].eq(entry[key_]):
                eng.prove('frame:%s.%s-unchanged' % (cname, f_), eng.st.heap[key_] == entry[key_], kind='post',
                          props=c.props, assume_after=False)
    if c.extra.get('no_invariant_at_exit'):
        return
    for o in objs:
        H.assert_invariant(eng, o, 'exit' if outcome[0] == 'return' else 'exit-raise', props=None)
        if not c.extra.get('no_guarantee'):
            H.assert_guarantees(eng, o)


def havoc_heap_for_loop(eng, s, fr, spec):
    """a loop body that writes the heap: forget at the loop head what the body may change.  If the body only assigns
    fields of `self` and calls nothing but logging, struct constructors and container methods on locals, only those
    fields are forgotten; otherwise the whole mutable heap (and the object invariant of the unit's objects is re-assumed)."""
    if not writes_heap(s.body):
        return
    if spec is not None and spec.extra.get('heap_modifies') is not None:
        H.havoc(eng, 'loop head', only=spec.extra['heap_modifies'])      # frame declared in the sidecar
        return
    fields = simple_self_writes(eng, s.body, fr)
    if fields is not None:
        selfv = fr.lookup('self')
        if isinstance(selfv, V) and selfv.ty[0] == 'ref':
            H.havoc(eng, 'loop head', only=['%s.%s' % (selfv.ty[1], f) for f in fields])
            return
    # the object invariant is assumed for the arbitrary iteration: it is owed when the loop is entered (here) and again
    # whenever the loop goes round (loops.run_loop asserts it at the end of the body when this flag is set)
    # (clauses the loop spec lists under `objinv_exempt` are deliberately suspended while the loop runs: neither owed nor assumed)
    exempt = set(spec.extra.get('objinv_exempt', [])) if spec is not None else set()
    held = [o for o in eng.st.ghost.get('unit_objs', []) if o.t.get_id() in eng.st.ghost.get('inv_objects', {})]
    for o in held:
        H.assert_invariant(eng, o, 'loop-entry', exempt=exempt)
    H.havoc(eng, 'loop head')
    for o in held:
        H.assume_invariant(eng, o, exempt=exempt)
    return held


SAFE_LOCAL_METHODS = {'append', 'add', 'extend', 'format', 'encode', 'decode', 'get', 'items', 'values', 'keys'}


def simple_self_writes(eng, stmts, fr):
    fields = set()
    for st_ in stmts:
        for n in ast.walk(st_):
            if isinstance(n, (ast.Assign, ast.AugAssign)):
                tg = n.targets if isinstance(n, ast.Assign) else [n.target]
                for t in tg:
                    for t2 in (t.elts if isinstance(t, (ast.Tuple, ast.List)) else [t]):
                        if isinstance(t2, ast.Attribute):
                            if isinstance(t2.value, ast.Name) and t2.value.id == 'self':
                                fields.add(t2.attr)
                            else:
                                return None
                        elif isinstance(t2, ast.Subscript) and isinstance(t2.value, ast.Attribute):
                            return None
            elif isinstance(n, ast.Delete):
                return None
            elif isinstance(n, ast.Call):
                if pure_call(eng, n):
                    continue
                return None
            elif isinstance(n, (ast.Yield, ast.YieldFrom)):
                return None
    return fields


PURE_NAMES = {'len', 'isinstance', 'min', 'max', 'int', 'type', 'str', 'repr', 'float', 'bool', 'abs', 'tuple', 'list',
              'enumerate', 'zip', 'range', 'hasattr', 'sorted', 'set', 'dict'}


def pure_call(eng, n):
    """a call that cannot write the heap nor hand control to foreign code"""
    if eng.B.is_logging_call(n):
        return True
    f = n.func
    if isinstance(f, ast.Name):
        return f.id in PURE_NAMES or f.id in T.STRUCTS or f.id.endswith('Error') or f.id in ('TopicAndPartition',)
    if isinstance(f, ast.Attribute):
        if f.attr in SAFE_LOCAL_METHODS and isinstance(f.value, (ast.Name, ast.Constant, ast.JoinedStr)) and \
                getattr(f.value, 'id', None) != 'self':
            return True
        if f.attr in ('format', 'encode', 'decode') :
            return True
    return False


def writes_heap(stmts):
    for s in stmts:
        for n in ast.walk(s):
            if isinstance(n, (ast.Assign, ast.AugAssign)):
                tg = n.targets if isinstance(n, ast.Assign) else [n.target]
                for t in tg:
                    for t2 in (t.elts if isinstance(t, (ast.Tuple, ast.List)) else [t]):
                        if isinstance(t2, ast.Attribute) or (isinstance(t2, ast.Subscript) and isinstance(t2.value, ast.Attribute)):
                            return True
            if isinstance(n, ast.Delete):
                return True
            if isinstance(n, (ast.Yield, ast.YieldFrom)):
                return True
            if isinstance(n, ast.Call) and not _pure_call_static(n):
                return True
    return False


def _pure_call_static(n):
    class _E:
        class B:
            @staticmethod
            def is_logging_call(x):
                from . import builtins as BB
                return BB.is_logging_call(x)
    return pure_call(_E, n)


# ---------------------------------------------------------------------------------------------- method dispatch

def call_ext_method(eng, ref, attr, args, kwargs, fr, node):
    cls = ref.ty[1]
    h = TM.EXT_DISPATCH.get(cls)
    if h is not None:
        return h(eng, ref, attr, args, kwargs, fr, node)
    return TM.generic_ext_method(eng, ref, attr, args, kwargs, fr, node)
