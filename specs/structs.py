"""Native struct constructors for spec evaluation (the real afkak classes)."""
from afkak.common import *  # noqa
from afkak.common import (_JoinGroupRequestProtocol, _JoinGroupProtocolMetadata, _JoinGroupRequest,  # noqa
                          _JoinGroupResponseMember, _JoinGroupResponse, _SyncGroupRequestMember,
                          _SyncGroupMemberAssignment, _SyncGroupRequest, _SyncGroupResponse, _HeartbeatRequest,
                          _HeartbeatResponse, _LeaveGroupRequest, _LeaveGroupResponse)
